#!/usr/bin/env python3
"""Driver: ./run_check.py <Cxx> [--tier quick|thorough] [--replay <file>] [--repo /repo]

exit 0  every obligation counted for the property is discharged (known findings are printed, not counted)
exit 1  a discharged-on-the-reference-tree obligation now fails: prints `VIOLATION property=<id> replay=<path> ...`
exit 2  UNDECIDED: anchor lost, construct rejected by the verifier, resource limit, tool failure (never a VIOLATION)
"""
import argparse
import json
import os
import re
import shutil
import subprocess
import sys
import tempfile
import time

HERE = os.path.dirname(os.path.abspath(__file__))
sys.path.insert(0, os.path.join(HERE, 'vx'))
import extract  # noqa: E402
import checks   # noqa: E402
import kanirun  # noqa: E402
import gridrun  # noqa: E402

SEMANTIC = [
    'postcondition not satisfied',
    'precondition not satisfied',
    'assertion failed',
    'invariant not satisfied',
    'possible arithmetic underflow/overflow',
    'possible division by zero',
    'possible bit shift underflow/overflow',
    'decreases not satisfied',
    'could not prove termination',
    'recommendation not met',
    'unreachable',
    'failed this',
    'value may be out of range',
    'possible truncation',
    'unable to prove post-condition of closure',
    'fails to satisfy `callee.requires(args)`',
]
SAFETY = ['possible arithmetic underflow/overflow', 'possible division by zero', 'precondition not satisfied', 'fails to satisfy `callee.requires(args)`',
          'possible bit shift', 'value may be out of range', 'possible truncation']


def slug(s):
    return re.sub(r'[^a-z0-9]+', '-', s.lower()).strip('-')


class Undecided(Exception):
    pass


def run_verus_unit(unit, repo, workdir, tier, seed):
    """returns dict(unit, functions, failures[], obligations[], times, assumptions, rules, ...)"""
    tpl = os.path.join(HERE, 'contracts', unit + '.vrs')
    ex = extract.Expander(repo)
    try:
        text = ex.expand(open(tpl).read())
    except extract.AnchorLost as e:
        raise Undecided('unit %s: anchor lost: %s' % (unit, e))
    out = os.path.join(workdir, unit.replace('-', '_') + '.rs')
    with open(out, 'w') as f:
        f.write(text)
    cmd = ['verus', out, '--multiple-errors', '100', '--error-format=json', '--output-json', '--time']
    if tier == 'thorough':
        cmd += ['--smt-option', 'smt.random_seed=%d' % (seed % 1000)]
    t0 = time.time()
    p = subprocess.run(cmd, stdout=subprocess.PIPE, stderr=subprocess.PIPE, text=True, cwd=workdir, timeout=1800)
    wall = time.time() - t0
    try:
        summary = json.loads(p.stdout)
    except Exception:
        summary = None
    diags = []
    for ln in p.stderr.split('\n'):
        ln = ln.strip()
        if ln.startswith('{'):
            try:
                diags.append(json.loads(ln))
            except Exception:
                pass
    failures = []
    canary_seen = False
    hard_errors = []
    for d in diags:
        if d.get('level') != 'error':
            continue
        msg = d.get('message', '')
        if msg.startswith('aborting due to'):
            continue
        spans = d.get('spans', [])
        if not any(k in msg for k in SEMANTIC):
            hard_errors.append(msg + ' @ ' + ', '.join('%s:%d' % (s['file_name'], s['line_start']) for s in spans[:2]))
            continue
        clause = None
        fn = None
        src_file = None
        lines_ = []
        # primary spans first (the failed clause itself); a secondary span only if it is a single line (e.g. the
        # invariant line of "invariant not satisfied"); multi-line secondary spans are whole bodies and would hit
        # unrelated clause ids
        for s in [x for x in spans if x.get('is_primary')] + [x for x in spans if not x.get('is_primary')]:
            if not s.get('is_primary') and s['line_end'] != s['line_start']:
                continue
            for ln_no in range(s['line_start'], s['line_end'] + 1):
                lines_.append(ln_no)
        # prefer a span that sits on a named clause
        for ln_no in lines_:
            c = ex.clause_lines.get(ln_no)
            if c:
                fn, clause = c
                break
        if clause is None:
            # a multi-line clause: the id comment sits on its last line -> look downward from the primary span
            prim = [s for s in spans if s.get('is_primary')] or spans
            if prim:
                for ln_no in range(prim[0]['line_start'], min(prim[0]['line_end'] + 12, len(ex.out_lines)) + 1):
                    c = ex.clause_lines.get(ln_no)
                    if c and any(k in msg for k in ('postcondition', 'invariant')):
                        fn, clause = c
                        break
                    if ln_no > prim[0]['line_end'] and re.search(r'//\s*#', ex.out_lines[ln_no - 1] if ln_no - 1 < len(ex.out_lines) else ''):
                        break
        if clause is None:
            # plain text id in hand-written code (e.g. canary, lemmas)
            for s in spans:
                for t in s.get('text', []):
                    m = re.search(r'//\s*#([\w.\-:]+)', t.get('text', ''))
                    if m:
                        clause = m.group(1)
        prim = [s for s in spans if s.get('is_primary')] or spans
        pl = prim[0]['line_start'] if prim else 0
        if fn is None:
            fn, _c, src_file = ex.locate(pl)
            if fn is None:
                # hand-written function: find enclosing `fn name`
                for k in range(pl, 0, -1):
                    m = re.search(r'\bfn\s+(\w+)', ex.out_lines[k - 1])
                    if m:
                        fn = m.group(1)
                        break
        if clause == 'canary':
            canary_seen = True
            continue
        text_line = ex.out_lines[pl - 1].strip() if 0 < pl <= len(ex.out_lines) else ''
        if clause is None:
            clause = 'body:' + slug(msg) + ':' + slug(text_line)[:60]
        failures.append({
            'unit': unit, 'fn': fn, 'clause': clause, 'message': msg,
            'obligation': '%s::%s::%s' % (unit, fn, clause),
            'safety': any(k in msg for k in SAFETY),
            'text': text_line,
            'rendered': d.get('rendered', ''),
        })
    if hard_errors:
        raise Undecided('unit %s: verus rejected the generated file: %s' % (unit, ' | '.join(hard_errors[:4])))
    if summary is None:
        raise Undecided('unit %s: verus produced no summary (exit %s): %s' % (unit, p.returncode, p.stderr[-400:]))
    if not canary_seen:
        raise Undecided('unit %s: canary obligation was not reported as failing - verifier not live or an assumption is inconsistent' % unit)
    # resource limits
    if 'rlimit' in p.stderr and 'exceeded' in p.stderr.lower():
        raise Undecided('unit %s: resource limit exceeded' % unit)
    vr = summary.get('verification-results', {})
    fb = []
    try:
        for m in summary['times-ms']['smt']['smt-run-module-times']:
            fb += m.get('function-breakdown', [])
    except Exception:
        pass
    # de-duplicate failures (same obligation reported at several exits)
    seen = {}
    for f in failures:
        seen.setdefault(f['obligation'], f)
    failures = list(seen.values())
    named = []
    for ln_no, (fn, cl) in sorted(ex.clause_lines.items()):
        named.append({'fn': fn, 'clause': cl, 'text': ex.out_lines[ln_no - 1].split('//')[0].strip()[:200]})
    # hand-written named clauses (lemmas)
    for idx, ln in enumerate(ex.out_lines):
        m = re.search(r'//\s*#([\w.\-:]+)', ln)
        if m and (idx + 1) not in ex.clause_lines and m.group(1) != 'canary':
            named.append({'fn': 'lemma', 'clause': m.group(1), 'text': ln.split('//')[0].strip()[:200]})
    return {
        'unit': unit, 'backend': 'verus+z3', 'generated_lines': len(ex.out_lines),
        'functions': ex.functions, 'items': ex.items, 'named_clauses': named,
        'failures': failures,
        'verified_fns': vr.get('verified', 0), 'error_fns': vr.get('errors', 0),
        'smt_ms': sum(x.get('time', 0) for x in fb),
        'function_breakdown': [{'fn': x['function'], 'ms': x['time'], 'rlimit': x.get('rlimit'), 'ok': x['success']} for x in fb],
        'assumptions': extract.scan_assumptions(text),
        'rules': ex.rules_fired, 'local_rewrites': ex.local_rewrites, 'variants': ex.variants,
        'wall_s': round(wall, 2),
        'cmd': 'verus <generated %s.rs> --multiple-errors 100 --error-format=json --output-json --time' % unit,
    }



def run_units(pid, spec, repo, workdir, tier, seed):
    from concurrent.futures import ThreadPoolExecutor
    results, undecided = [], []

    def one(unit):
        try:
            return ('ok', run_verus_unit(unit, repo, workdir, tier, seed))
        except Undecided as e:
            return ('undecided', str(e))
        except subprocess.TimeoutExpired:
            return ('undecided', 'unit %s: verus timed out' % unit)

    with ThreadPoolExecutor(max_workers=8) as pool:
        for kind, val in pool.map(one, spec['verus_units']):
            if kind == 'ok':
                results.append(val)
            else:
                undecided.append(val)
    if spec.get('kani'):
        try:
            results.append(kanirun.run(pid, spec['kani'], repo, workdir, tier, seed))
        except kanirun.Undecided as e:
            undecided.append(str(e))
    return results, undecided


def classify(pid, spec, results, known_for):
    only = spec.get('only_safety', False)
    clause_filter = spec.get('clause_prefixes')
    violations, known_hits, ignored = [], [], []
    for r in results:
        for f in r['failures']:
            tags = re.findall(r'\bc\d\d\b', f['clause'].split(':')[0]) if not f['clause'].startswith('body:') else []
            pref = (bool(clause_filter) and any(p in f['clause'] for p in clause_filter)) or (not tags and not f['clause'].startswith('body:'))
            if only and not (f.get('safety') or pref):
                ignored.append(f['obligation'])
                continue
            if not only and clause_filter and not f['clause'].startswith('body:') and not pref:
                ignored.append(f['obligation'])
                continue
            if f['obligation'] in known_for:
                known_hits.append((f, known_for[f['obligation']]))
            else:
                violations.append(f)
    return violations, known_hits, ignored


def self_validate(pid, spec, repo, workdir, known_for, seed):
    """thorough tier: every seeded change kept for this property is applied to a scratch copy of /repo and the units are
    run against it; the verdicts go into the evidence (no influence on the exit code)."""
    out = []
    sd = os.path.join(HERE, 'seeded')
    if not os.path.isdir(sd):
        return out
    for d in sorted(os.listdir(sd)):
        dd = os.path.join(sd, d)
        mp = os.path.join(dd, 'meta.json')
        if not os.path.exists(mp) or json.load(open(mp)).get('property') != pid:
            continue
        scratch = os.path.join(workdir, 'seed_' + d)
        subprocess.run(['rsync', '-a', '--exclude', 'target', '--exclude', '.git', repo.rstrip('/') + '/', scratch + '/'], check=True)
        patch = os.path.join(dd, 'patch_ported.diff') if os.path.exists(os.path.join(dd, 'patch_ported.diff')) else os.path.join(dd, 'patch.diff')
        ap = subprocess.run(['patch', '-p1', '-s', '-i', patch], cwd=scratch, capture_output=True, text=True)
        if ap.returncode != 0:
            out.append({'seed': d, 'verdict': 'patch does not apply to the current tree'})
            shutil.rmtree(scratch, ignore_errors=True)
            continue
        wd2 = os.path.join(workdir, 'wd_' + d)
        os.makedirs(wd2, exist_ok=True)
        res, und = run_units(pid, spec, scratch, wd2, 'quick', seed)
        viol, _k, _i = classify(pid, spec, res, known_for)
        verdict = 'VIOLATION' if viol else ('UNDECIDED' if und else 'not reported')
        out.append({'seed': d, 'verdict': verdict, 'obligations': [v['obligation'] for v in viol][:4], 'undecided': [u[:200] for u in und][:2]})
        shutil.rmtree(scratch, ignore_errors=True)
        shutil.rmtree(wd2, ignore_errors=True)
    return out


def load_known():
    known, fixed = [], []
    p = os.path.join(HERE, 'known_findings.txt')
    if os.path.exists(p):
        for ln in open(p):
            ln = ln.strip()
            if ln.startswith('known:'):
                m = re.match(r'known:\s+property=(\S+)\s+obligation=(\S+)\s+(.*)$', ln)
                if m:
                    known.append({'property': m.group(1), 'obligation': m.group(2), 'what': m.group(3)})
            elif ln.startswith('fixed:'):
                fixed.append(ln)
    return known, fixed


def main():
    ap = argparse.ArgumentParser()
    ap.add_argument('property')
    ap.add_argument('--tier', default=os.environ.get('VERIF_TIER', 'quick'))
    ap.add_argument('--repo', default='/repo')
    ap.add_argument('--out', default=HERE, help='where evidence/ and replays/ are written (seed evaluation uses a scratch directory)')
    ap.add_argument('--replay')
    ap.add_argument('--keep', action='store_true')
    a = ap.parse_args()
    pid = a.property
    seed = int(os.environ.get('VERIF_SEED', '0') or 0)
    if a.replay:
        rep = json.load(open(a.replay))
        if (rep.get('failing_input') or {}).get('grid'):
            return gridrun.replay(rep, a.repo)
        return kanirun.replay(a.replay, a.repo)
    spec = checks.CHECKS[pid]
    t0 = time.time()
    workdir = tempfile.mkdtemp(prefix='sqlgrep_verif_%s_' % pid)
    results = []
    undecided = []
    selfval = []
    grid_res = None
    grid_undecided = None
    known, fixed = load_known()
    known_for = {k['obligation']: k for k in known if pid in k['property'].split(',')}
    try:
        results, undecided = run_units(pid, spec, a.repo, workdir, a.tier, seed)
        if a.tier == 'thorough':
            selfval = self_validate(pid, spec, a.repo, workdir, known_for, seed)
        # bounded stand-in (never counted as proof): see gridrun.py for when it runs
        if spec.get('grid'):
            pre_viol = classify(pid, spec, results, known_for)[0]
            # the whole grid in both tiers (built with opt-level 1 it takes 7-30 s); `quick_stride` in checks.py / VERIF_GRID_QUICK_STRIDE
            # can thin it out in the quick tier (of every family of cases the first four and then every k-th)
            full = bool(undecided or pre_viol or a.tier == 'thorough')
            try:
                grid_res = gridrun.run(pid, spec['grid'], a.repo, workdir, stride=1 if full else int(os.environ.get('VERIF_GRID_QUICK_STRIDE', str(spec['grid'].get('quick_stride', 1)))), full=(a.tier == 'thorough'))
            except gridrun.Undecided as e:
                grid_undecided = str(e)
    finally:
        if not a.keep:
            shutil.rmtree(workdir, ignore_errors=True)

    only = spec.get('only_safety', False)
    clause_filter = spec.get('clause_prefixes')  # None = all
    violations, known_hits, ignored = classify(pid, spec, results, known_for)
    proof_violations = len(violations)
    if grid_res:
        for f in grid_res['failures']:
            if f['obligation'] in known_for:
                known_hits.append((f, known_for[f['obligation']]))
            else:
                violations.append(f)

    # ---------------------------------------------------------------- evidence
    fns, samples, trusted, bounded_units = [], [], [], []
    obligations = discharged = 0
    solver_ms = 0
    backends = set()
    for r in results:
        backends.add(r['backend'])
        solver_ms += r.get('smt_ms', 0)
        for t in r.get('assumptions', []):
            trusted.append('%s: %s' % (r['unit'], t))
        if r['backend'].startswith('verus'):
            failing = {f['obligation'] for f in r['failures']}
            for fn in r['functions']:
                fns.append({'unit': r['unit'], 'fn': fn['fn'], 'src': '%s:%d-%d' % (fn['file'], fn['src_lines'][0], fn['src_lines'][1]),
                            'arm': fn['arm'], 'rewrites': fn['rules']})
            named_obs = {'%s::%s::%s' % (r['unit'], c2['fn'], c2['clause']) for c2 in r['named_clauses']}
            for c in r['named_clauses']:
                ctags = re.findall(r'\bc\d\d\b', c['clause'])
                if clause_filter and ctags and not any(p in c['clause'] for p in clause_filter):
                    continue
                if only and not clause_filter:
                    continue
                ob = '%s::%s::%s' % (r['unit'], c['fn'], c['clause'])
                if ob in known_for:
                    continue
                obligations += 1
                # (fallback: a failure reported under another label of the same clause - but never the same-named clause of
                # another function, which is an obligation of its own)
                if ob not in failing and not any(x.endswith('::' + c['clause']) and x not in named_obs for x in failing):
                    discharged += 1
                # samples: obligations tagged with this property first, the shared (untagged) ones only to fill up
                if ctags:
                    samples.insert(0, {'obligation': ob, 'clause': c['text']})
                elif len(samples) < 12:
                    samples.append({'obligation': ob, 'clause': c['text']})
            # one implicit safety obligation per extracted function (no overflow / div0 / failed callee precondition / OOB)
            for fn in r['functions']:
                body_f = [f for f in r['failures'] if f['fn'] == fn['fn'] and f['clause'].startswith('body:')]
                if body_f and all(f['obligation'] in known_for for f in body_f):
                    continue   # its safety obligation fails only where a known finding says so: listed, not counted
                obligations += 1
                if not body_f:
                    discharged += 1
        else:
            if r.get('hw_grid'):
                g = r['hw_grid']
                bounded_units.append({'harness': 'hardware edge grid over %d discharged harnesses' % len(g['per_harness']),
                                      'bound': 'every combination of %s edge values per symbolic draw, executed on the compiled real code (%d runs); bounded, not counted as proved'
                                               % (g['values_per_draw'], g['runs']), 'status': 'SUCCESS', 'cmd': g['cmd'], 'wall_s': g['wall_s']})
            for h in r['harnesses']:
                if h.get('bounded'):
                    bounded_units.append({'harness': h['name'], 'bound': h['bounded'], 'status': h['status']})
                    continue
                if 'kani::%s::%s' % (h['set'], h['name']) in known_for:
                    continue
                obligations += 1
                if h['status'] == 'SUCCESS':
                    discharged += 1
                if len(samples) < 16:
                    samples.append({'obligation': 'kani::%s' % h['name'], 'clause': h.get('doc', ''), 'checks': h.get('checks')})
                fns.append({'unit': 'kani', 'fn': h.get('target', h['name']), 'src': h.get('src', ''), 'arm': None, 'rewrites': []})
    wall = time.time() - t0
    ev = {
        'property_id': pid,
        'tier': a.tier if a.tier in ('quick', 'thorough') else 'quick',
        'seed': seed,
        'level': spec.get('level', 'proof'),
        'coverage': {
            'obligations': obligations,
            'discharged': discharged,
            'checker_cmd': '; '.join(sorted({r['cmd'] for r in results})),
            'trusted_base': trusted + spec.get('trusted', []),
            'samples': samples[:16],
            'explanation': spec.get('explanation', ''),
            'functions_under_contract': fns,
            'back_ends': sorted(backends),
            'solver_s': round(solver_ms / 1000.0, 3),
            'units': [{k: r[k] for k in ('unit', 'backend', 'wall_s', 'rules', 'local_rewrites', 'variants', 'verified_fns', 'error_fns', 'generated_lines') if k in r} for r in results],
            'per_function_solver': [x for r in results for x in r.get('function_breakdown', [])][:80],
            'bounded_units': bounded_units + ([{'harness': 'grid ' + ', '.join('%s (%d cases, %d failing)' % (k, v['cases'], v['fails']) for k, v in grid_res['per_grid'].items()),
                                               'bound': grid_res['bound'], 'status': 'FAILED' if grid_res['failures'] else 'SUCCESS', 'cmd': grid_res['cmd'], 'wall_s': grid_res['wall_s'],
                                               'why_it_ran': 'proof undecided on this tree' if undecided else ('an obligation failed' if proof_violations else ('thorough tier' if a.tier == 'thorough' else 'quick tier'))}] if grid_res else []),
            'grid_undecided': grid_undecided,
            'unproved': spec.get('unproved', []),
            'known_findings_hit': [k['obligation'] for _f, k in known_hits],
            'undecided': undecided,
            'ignored_for_this_property': sorted(set(ignored)),
            'seeded_self_validation': selfval,
        },
        'assumptions': spec.get('assumptions', []) + trusted,
        'wall_s': round(wall, 2),
        'violations': len(violations),
    }
    os.makedirs(os.path.join(a.out, 'evidence'), exist_ok=True)
    with open(os.path.join(a.out, 'evidence', pid + '.json'), 'w') as f:
        json.dump(ev, f, indent=1)

    for f, k in known_hits:
        print('KNOWN-FINDING: property=%s %s (obligation %s)' % (pid, k['what'], f['obligation']))
    rc = 0
    if violations:
        os.makedirs(os.path.join(a.out, 'replays'), exist_ok=True)
        for f in violations:
            name = '%s_%s.json' % (pid, slug(f['obligation'])[:100])
            path = os.path.join(a.out, 'replays', name)
            rep = {
                'property': pid, 'obligation': f['obligation'], 'function': f['fn'], 'clause': f['clause'],
                'message': f['message'], 'verifier_output': f['rendered'],
                'failing_input': f.get('failing_input'),
                'replay_rs': f.get('replay_rs'),
                'replay_result': f.get('replay_result'),
                'note': 'no-failing-input-found' if not f.get('failing_input') else 'counterexample replayed against the real code',
            }
            with open(path, 'w') as fh:
                json.dump(rep, fh, indent=1)
            tail = '' if f.get('failing_input') else ' no-failing-input-found'
            print('VIOLATION property=%s replay=%s obligation=%s%s' % (pid, path, f['obligation'], tail))
        rc = 1
    if undecided:
        for u in undecided:
            print('UNDECIDED property=%s %s' % (pid, u))
        if rc == 0:
            if grid_res and not grid_res['failures']:
                # the proof is undecided on this tree; the bounded stand-in explored its whole grid and the property held there
                print('OK-BOUNDED property=%s proof=undecided bounded-stand-in=%s known-findings=%d wall=%.1fs'
                      % (pid, ','.join('%s:%d-cases' % (k, v['cases']) for k, v in grid_res['per_grid'].items()), len(known_hits), wall))
                return 0
            rc = 2
    if rc == 0:
        print('OK property=%s obligations=%d discharged=%d known-findings=%d wall=%.1fs' % (pid, obligations, discharged, len(known_hits), wall))
    return rc


if __name__ == '__main__':
    sys.exit(main())
