#!/usr/bin/env python3
"""Template expander: contracts/<unit>.vrs + /repo/src  ->  one Verus file.

A template is ordinary Verus source (prelude stand-ins, spec functions, lemmas)
with directive blocks that are replaced, on every run, by text cut out of the
current /repo working tree:

  //@item file=<path> kind=<enum|struct> name=<Name>
      the item, `#[derive]`/doc attributes dropped (rule E1)

  //@fn file=<path> impl=<normalised impl header | -> name=<fn>
  //@  sig: <replacement signature>            (optional; default: the real signature with the
  //@                                            return type named `r` - rule E5)
  //@  arm: <pattern prefix> [> <pattern prefix>]   (optional, rule E3: emit only this match arm's body)
  //@  contract:
  <verus requires/ensures/decreases lines; a clause may end in  `// #clause-id`>
  //@  loop <n>:
  <invariant/decreases lines spliced after the n-th loop header of the emitted body>
  //@  replace: <python-regex> => <replacement>   (local rewrite, reported in the evidence)
  //@  pre: <statements inserted at the start of the body>  (ghost/proof only)
  //@end

The body of every emitted function is byte-for-byte the text in /repo except for
the global rewrite table RULES below and the local `replace:` lines; both are
reported (rule id, count) so the evidence can say exactly what was changed.
"""
import json
import os
import re
import sys

sys.path.insert(0, os.path.dirname(os.path.abspath(__file__)))
from rustsrc import Source, ScanError  # noqa: E402


class AnchorLost(Exception):
    """the code a directive points at is no longer there -> UNDECIDED, never a violation"""


# ---------------------------------------------------------------- global rewrite rules (E4)
# (id, regex, replacement, description)
RULES = [
    ('E4-closure-wildcard2', r'\|_,\s*_\|', '|_a0, _a1|', 'closure wildcard parameters renamed (Verus rejects `_` closure params)'),
    ('E4-closure-wildcard1', r'\|_\|', '|_a0|', 'closure wildcard parameter renamed'),
    ('E4-compound-add-deref', r'\*(\w+) \+= (\w+)', r'*\1 = *\1 + \2', '`*x += y` -> `*x = *x + y` (Verus panics on compound assignment through &mut f64)'),
    ('E4-checked-div', r'(\w+)\.checked_div\((\w+)\)', r'vx_checked_div(\1, \2)', '`a.checked_div(b)` -> stand-in with Rust\'s documented truncating semantics (vstd leaves negative operands unspecified)'),
    ('E4-unimplemented-stmt', r'\bunimplemented!\(\);', 'return vx_unreachable();', '`unimplemented!();` -> `return vx_unreachable();` (call with `requires false`: reachability becomes an obligation)'),
    ('E4-unimplemented', r'\bunimplemented!\(\)', 'vx_unreachable()', '`unimplemented!()` -> call with `requires false` (reachability becomes an obligation)'),
    ('E4-panic', r'\bpanic!\([^;]*\)', 'vx_unreachable()', '`panic!(..)` -> call with `requires false`'),
]


# rule E2: type substitution applied to every extracted item / signature / body
TYPE_SUBST = [
    ('E2-bufreader', r'BufReader<File>', 'VReader'),
    ('E2-rowset', r'FnvHashSet<Vec<Value>>', 'VRowSet'),
    ('E2-valueset', r'HashSet<Value>', 'VValueSet'),
    ('E2-valueset-ctor', r'HashSet::new\(\)', 'VValueSet::new()'),
    ('E2-rowset-ctor', r'FnvHashSet::default\(\)', 'VRowSet::default()'),
    ('E2-peekable-chars', r"Peekable<Chars<'a>>", 'VChars'),
    ('E2-scope-map', r"HashMap<ColumnScope, HashMap<&'a str, &'a Value>>", "VScopes<'a>"),
    ('E2-name-map', r"HashMap<&'a str, &'a Value>", "VNameMap<'a>"),
]


def apply_types(text, fired):
    for rid, rx, rep in TYPE_SUBST:
        text, n = re.subn(rx, rep, text)
        if n:
            fired[rid] = fired.get(rid, 0) + n
    return text


def parse_kv(s):
    out = {}
    for m in re.finditer(r'(\w+)=("([^"]*)"|\S+)', s):
        out[m.group(1)] = m.group(3) if m.group(3) is not None else m.group(2)
    return out


def short_label(impl, name):
    """'impl<'a> ExecutionEngine<'a>' + 'execute' -> 'ExecutionEngine::execute'; 'impl Iterator for X' -> 'X::next'; '-' -> name"""
    if impl == '-':
        return name
    t = re.sub(r'^impl\s*(<[^>]*>)?\s*', '', impl.strip())
    if ' for ' in t:
        t = t.split(' for ', 1)[1]
    t = re.sub(r'<.*$', '', t).strip()
    return '%s::%s' % (t, name)


def strip_attrs(text):
    lines = []
    for ln in text.split('\n'):
        s = ln.strip()
        if s.startswith('#[derive') or s.startswith('///') or s.startswith('#[allow') or s.startswith('#[test]'):
            continue
        lines.append(ln)
    return '\n'.join(lines)


def name_return(sig):
    """`fn f(..) -> T` => `fn f(..) -> (r: T)`; where-clauses are kept."""
    # find top-level `->` after the parameter list
    depth = 0
    i = 0
    n = len(sig)
    arrow = -1
    while i < n:
        c = sig[i]
        if c in '([<':
            # `<` generic depth; cheap: treat as bracket, but `->` contains '>' so handle first
            depth += 1
        elif c in ')]':
            depth -= 1
        elif c == '>':
            if i > 0 and sig[i - 1] == '-':
                if depth == 0:
                    arrow = i - 1
                    break
            else:
                depth -= 1
        i += 1
    if arrow < 0:
        return sig.rstrip()
    head = sig[:arrow].rstrip()
    rest = sig[arrow + 2:].strip()
    m = re.search(r'\bwhere\b', rest)
    if m:
        ret, where = rest[:m.start()].strip(), ' ' + rest[m.start():].strip()
    else:
        ret, where = rest, ''
    if ret.startswith('(r:') or ret.startswith('(r :'):
        return sig.rstrip()
    return '%s -> (r: %s)%s' % (head, ret, where)


class Expander:
    def __init__(self, repo):
        self.repo = repo
        self.sources = {}
        self.functions = []      # emitted functions: dict(name, file, lines, out_lines, clauses, rules)
        self.rules_fired = {}
        self.local_rewrites = []
        self.items = []
        self.out_lines = []      # output text lines
        self.clause_lines = {}   # out line number (1-based) -> (fn label, clause id)
        self.fn_ranges = []      # (out_start, out_end, label, src_file, src_start_line, body_out_start)
        self.assumption_scan = []
        self.defines = {}
        self.variants = []

    def src(self, rel, within=None):
        if rel not in self.sources:
            p = os.path.join(self.repo, rel)
            if not os.path.exists(p):
                raise AnchorLost('source file %s is gone' % rel)
            self.sources[rel] = Source(p)
        if within:
            # rule E6: items declared inside a function body (Verus has no internal items) are addressed through a view
            # of the file in which everything outside that body is blanked; offsets and line numbers stay those of the file
            key = rel + '::' + within
            if key not in self.sources:
                s = self.sources[rel]
                impl_, _, name_ = within.rpartition('::')
                try:
                    hs, bo, bc = s.find_fn(impl_ or '-', name_)
                except ScanError as e:
                    raise AnchorLost(str(e))
                blank = lambda t: re.sub(r'[^\n]', ' ', t)
                self.sources[key] = Source(s.path, blank(s.text[:bo + 1]) + s.text[bo + 1:bc] + blank(s.text[bc:]))
            return self.sources[key]
        return self.sources[rel]

    def emit(self, text):
        for ln in text.split('\n'):
            self.out_lines.append(ln)

    # ------------------------------------------------------------ directives
    def do_item(self, kv):
        s = self.src(kv['file'], kv.get('within'))
        try:
            hs, bo, bc = s.find_item(kv['kind'], kv['name'])
        except ScanError as e:
            raise AnchorLost(str(e))
        text = apply_types(strip_attrs(s.text[hs:bc + 1]), self.rules_fired)
        if kv['kind'] == 'struct':
            # rule E1: fields are made `pub` (visibility only) so that spec functions may mention them
            text = re.sub(r'(?m)^(\s+)(?!pub\b)(\w+\s*:)', r'\1pub \2', text)
        for k in kv:
            if k.startswith('sub'):
                a, b = kv[k].split('=>')
                text = text.replace(a, b)
        self.items.append({'file': kv['file'], 'kind': kv['kind'], 'name': kv['name'],
                           'lines': [s.line_of(hs), s.line_of(bc)]})
        self.emit('// ---- extracted %s %s from %s:%d-%d' % (kv['kind'], kv['name'], kv['file'], s.line_of(hs), s.line_of(bc)))
        if kv.get('keep_derive'):
            self.emit('#[derive(%s)]' % kv['keep_derive'])
        self.emit(text)

    def do_auto_setters(self, kv):
        """rule E7: methods of a (local) impl that have no contract in the template and consist only of assignments to fields
        of `self` (`self.f = e;`, `self.f += e;`, `self.f -= e;` with e over literals and fields of self) get the contract
        that their text determines: one `ensures` per assigned field (symbolic execution of the statements in order), the
        other fields unchanged, and `requires` that no `+=` / `-=` leaves the field's type.  Any other uncontracted method
        makes the unit UNDECIDED (a caller cannot be decided against a callee without contract)."""
        s = self.src(kv['file'], kv.get('within'))
        norm = lambda t: re.sub(r'\s+', ' ', t).strip()
        impl = None
        for k, header, hs, bo, bc in s.top_items():
            if k == 'impl' and norm(header) == norm(kv['impl']):
                impl = (bo, bc)
        if impl is None:
            raise AnchorLost('auto-setters: `%s` not found' % kv['impl'])
        try:
            shs, sbo, sbc = s.find_item('struct', kv['struct'])
        except ScanError as e:
            raise AnchorLost(str(e))
        fields = dict((m.group(1), m.group(2).strip().rstrip(',')) for m in re.finditer(r'(?m)^\s*(?:pub(?:\([a-z]+\))?\s+)?(\w+)\s*:\s*([^\n]+?),?\s*$', strip_attrs(s.text[sbo + 1:sbc])))
        skip = set(x.strip() for x in kv.get('except', '').split(',') if x.strip())
        names = [m.group(1) for m in re.finditer(r'\bfn\s+(\w+)', s.text[impl[0]:impl[1]]) if s.depth_at(impl[0] + m.start(), impl[0]) == 1]
        for name in names:
            if name in skip:
                continue
            hs, bo, bc = s._find_fn_in(impl[0], impl[1], name)
            sig = norm(s.text[hs:bo])
            body = s.text[bo + 1:bc]
            label = '%s::%s' % (kv.get('label', kv['struct']), name)
            if not re.fullmatch(r'(pub(\([a-z]+\))? )?fn %s\(&mut self\)' % re.escape(name), sig):
                raise AnchorLost('%s: a method without contract that is not a plain setter (`%s`)' % (label, sig))
            env, req = {}, []
            for stmt in [x.strip() for x in re.sub(r'//[^\n]*', '', body).split(';') if x.strip()]:
                m = re.fullmatch(r'self\.(\w+)\s*(\+=|-=|=)\s*([\w\s.+\-*]+)', stmt)
                if not m or m.group(1) not in fields:
                    raise AnchorLost('%s: a method without contract that is not a plain setter (`%s`)' % (label, stmt[:50]))
                f, op, rhs = m.group(1), m.group(2), m.group(3).strip()
                cur = lambda g: env.get(g, 'old(self).%s' % g)
                rhs_spec = re.sub(r'self\.(\w+)', lambda mm: '(%s)' % cur(mm.group(1)), rhs)
                if op == '=':
                    env[f] = rhs_spec
                else:
                    new_ = '(%s) %s (%s)' % (cur(f), op[0], rhs_spec)
                    ty = fields[f]
                    req.append('%s::MIN <= %s <= %s::MAX' % (ty, new_, ty))
                    env[f] = new_
            ens = ['final(self).%s == %s' % (f, (e if f in env else 'old(self).%s' % f)) for f, e in [(f, env.get(f)) for f in fields]]
            start_out = len(self.out_lines) + 1
            self.emit('// ---- extracted fn %s from %s:%d-%d (contract derived from its text: rule E7)' % (label, kv['file'], s.line_of(hs), s.line_of(bc)))
            self.emit('fn %s(&mut self)' % name)
            if req:
                self.emit('    requires ' + ', '.join(req) + ',')
            self.emit('    ensures ' + ', '.join(ens) + ',')
            body_out_start = len(self.out_lines) + 1
            self.emit(s.text[bo:bc + 1])
            self.fn_ranges.append((start_out, len(self.out_lines), label, kv['file'], s.line_of(hs), body_out_start))
            self.functions.append({'fn': label, 'file': kv['file'], 'src_lines': [s.line_of(hs), s.line_of(bc)], 'arm': None, 'clauses': [], 'rules': [['E7-auto-setter', 1]]})
            self.rules_fired['E7'] = self.rules_fired.get('E7', 0) + 1

    def do_fn(self, kv, sections):
        s = self.src(kv['file'], kv.get('within'))
        try:
            hs, bo, bc = s.find_fn(kv.get('impl', '-'), kv['name'])
        except ScanError as e:
            raise AnchorLost(str(e))
        label = kv.get('label') or short_label(kv.get('impl', '-'), kv['name'])
        sig = s.text[hs:bo].strip()
        body_s, body_e = bo, bc + 1          # [body_s, body_e) includes braces
        prefix_text = ''
        arm_desc = None
        if 'arm' in sections:
            arm_desc = sections['arm'][0].strip()
            pats = [p.strip() for p in arm_desc.split(' > ')]
            cur_s, cur_e = bo, bc + 1
            prefix_parts = []
            for pat in pats:
                # last `match` at depth 1 of the current block
                cands = [m.start() for m in s.find_code(r'\bmatch\b', cur_s, cur_e)
                         if s.depth_at(m.start(), cur_s) == 1]
                if not cands:
                    raise AnchorLost('%s: no match expression for arm `%s`' % (label, pat))
                chosen = None
                for mk in cands:
                    scrut, mo, mc, arms = s.match_arms(mk)
                    for (ps, pe, bs, be, is_block) in arms:
                        ptxt = re.sub(r'\s+', ' ', s.text[ps:pe]).strip()
                        if ptxt.startswith(pat):
                            chosen = (mk, mo, mc, ps, pe, bs, be, is_block)
                            break
                    if chosen:
                        break
                if not chosen:
                    raise AnchorLost('%s: match arm `%s` not found' % (label, pat))
                mk, mo, mc, ps, pe, bs, be, is_block = chosen
                # statements of the enclosing block that precede the match are kept verbatim
                pre = s.text[cur_s + 1:mk]
                # drop a trailing `return`/`let x =` fragment directly in front of the match keyword?  keep verbatim:
                prefix_parts.append(pre)
                # trailing statements after the match (e.g. `Ok(())`) are appended after the arm body
                post = s.text[mc + 1:cur_e - 1]
                if is_block:
                    cur_s, cur_e = bs, be
                else:
                    cur_s, cur_e = bs, be
                last = (is_block, post)
            prefix_text = ''.join(prefix_parts)
            if is_block:
                inner = s.text[cur_s + 1:cur_e - 1]
            else:
                inner = s.text[cur_s:cur_e]
            if 'keep-match' in sections:
                # rule E3d: the innermost `match` is kept with the chosen arm (pattern AND guard verbatim) and one wildcard arm
                # whose body is the given stand-in call - whether a value reaches this arm or falls through stays an obligation
                mk_, mo_, mc_, ps_, pe_ = chosen[0], chosen[1], chosen[2], chosen[3], chosen[4]
                scrut_ = s.text[mk_:mo_]
                arm_body_ = s.text[cur_s:cur_e]
                inner = '%s{\n%s => %s,\n_ => { %s }\n}' % (scrut_, s.text[ps_:pe_], arm_body_, ' '.join(x.strip() for x in sections['keep-match']))
                is_block = True
                last = (True, '')
            post = last[1]
            if post.strip():
                if not is_block:
                    inner = inner + ';'
                elif not inner.rstrip().endswith(';') and not inner.rstrip().endswith('}'):
                    inner = inner + ';'
                body_text = '{' + prefix_text + inner + '\n' + post + '}'
            else:
                body_text = '{' + prefix_text + inner + '\n}'
            src_lines = [s.line_of(cur_s), s.line_of(cur_e - 1)]
            body_src_off = cur_s
        elif any(k.startswith('arm-call ~') for k in sections):
            # rule E3e: the dispatching `match` of the function is kept with every pattern (and guard) verbatim; each arm's body is
            # replaced by the call given in the template (to the function the arm's body was emitted as, rule E3).  What is
            # checked is the dispatch: every arm must establish the precondition of the slice that was proved for it.
            calls = {k[len('arm-call ~'):]: ' '.join(x.strip() for x in v) for k, v in sections.items() if k.startswith('arm-call ~')}
            cands = [m.start() for m in s.find_code(r'\bmatch\b', bo, bc + 1) if s.depth_at(m.start(), bo) == 1]
            if not cands:
                raise AnchorLost('%s: no dispatching match' % label)
            mk = cands[0]
            scrut, mo, mc, arms = s.match_arms(mk)
            out, used = [], set()
            for (ps, pe, bs, be, is_block) in arms:
                ptxt = re.sub(r'\s+', ' ', s.text[ps:pe]).strip()
                hit = [c for c in calls if ptxt.startswith(c)]
                if not hit:
                    raise AnchorLost('%s: arm `%s` has no slice (new arm?)' % (label, ptxt[:60]))
                c = max(hit, key=len)
                used.add(c)
                out.append('%s => { %s }' % (s.text[ps:pe].strip(), calls[c]))
            if used != set(calls):
                raise AnchorLost('%s: arms %s are gone' % (label, sorted(set(calls) - used)))
            arm_desc = 'dispatch of `match %s`' % scrut
            body_text = '{' + s.text[bo + 1:mk] + s.text[mk:mo + 1] + '\n' + ',\n'.join(out) + '\n}' + s.text[mc + 1:bc] + '}'
            src_lines = [s.line_of(hs), s.line_of(bc)]
            body_src_off = bo
        elif 'body-of-loop' in sections:
            # rule E3c: the body of the n-th loop of the function (source order) is emitted as a function of its own: the
            # parameters (given by `sig:`) are the loop's pattern bindings and the variables the body uses; `tail:` is what
            # "go on with the next iteration" returns.  The loop header itself (what is iterated) is NOT under contract.
            n_ = int(sections['body-of-loop'][0].strip())
            loops = s.loops_in(bo, bc + 1)
            if n_ > len(loops):
                raise AnchorLost('%s: loop #%d no longer exists (%d loops)' % (label, n_, len(loops)))
            kw, lopen = loops[n_ - 1]
            lclose = s.match_close(lopen)
            hdr = re.sub(r'\s+', ' ', s.text[kw:lopen]).strip()
            want = ' '.join(sections.get('loop-header', [])).strip()
            if want and hdr != want:
                raise AnchorLost('%s: loop #%d header is now `%s` (contract written for `%s`)' % (label, n_, hdr, want))
            arm_desc = 'body of loop `%s`' % hdr
            tail = '\n'.join(sections.get('tail', []))
            body_text = '{' + s.text[lopen + 1:lclose] + '\n' + tail + '\n}'
            src_lines = [s.line_of(lopen), s.line_of(lclose)]
            body_src_off = lopen
        else:
            body_text = s.text[body_s:body_e]
            src_lines = [s.line_of(hs), s.line_of(bc)]
            body_src_off = body_s

        if 'hoist-local-items' in sections:
            # rule E6: item statements of the body (struct / impl / fn declared inside the function) are cut out here;
            # the template emits them at module level through `within=` directives
            tmp = Source('<body>', ' ' + body_text[1:-1] + ' ')
            cut = [(hs_, bc_ + 1, hd_) for (k_, hd_, hs_, bo_, bc_) in tmp.top_items()]
            for a_, b_, hd_ in sorted(cut, reverse=True):
                body_text = body_text[:a_] + body_text[b_:]
                self.local_rewrites.append({'fn': label, 'regex': '<local item> ' + re.sub(r'\s+', ' ', hd_)[:60], 'replacement': '<hoisted to module level (rule E6)>', 'count': 1})
            self.rules_fired['E6'] = self.rules_fired.get('E6', 0) + len(cut)

        # signature
        if 'sig' in sections:
            sig_out = ' '.join(x.strip() for x in sections['sig']).strip()
        else:
            sig_out = apply_types(name_return(re.sub(r'^pub(\([a-z]+\))?\s+', '', sig)), self.rules_fired)

        # global rewrites
        fired = []
        body_text = apply_types(body_text, self.rules_fired)
        for rid, rx, rep, _d in RULES:
            body_text, n = re.subn(rx, rep, body_text)
            if n:
                fired.append([rid, n])
                self.rules_fired[rid] = self.rules_fired.get(rid, 0) + n
        # local rewrites
        for optional, ln in [(False, x) for x in sections.get('replace', [])] + [(True, x) for x in sections.get('opt-replace', [])]:
            if '=>' not in ln:
                continue
            rx, rep = ln.split(' => ', 1)
            rx, rep = rx.strip(), rep.strip()
            if rep == '<empty>':
                rep = ''
            for k, v in self.defines.items():
                rep = rep.replace(k, v)
            body_text, n = re.subn(rx, rep.replace('\\n', '\n'), body_text)
            if n == 0:
                # the construct the rewrite normalises is not there (any more): nothing to normalise.  If it is still
                # there in another spelling Verus will reject the file and the unit is UNDECIDED - never a false alarm.
                self.local_rewrites.append({'fn': label, 'regex': rx, 'replacement': rep, 'count': 0})
                continue
            self.local_rewrites.append({'fn': label, 'regex': rx, 'replacement': rep, 'count': n})

        if 'strmatch' in sections:
            # rule E4-strmatch: `match x.as_str() { "a" => e1, "b" => e2, _ => e3 }` -> `if vx_str_eq(&x, "a") { e1 } else if
            # vx_str_eq(&x, "b") { e2 } else { e3 }` (Verus gives string-literal patterns no meaning; first match wins in both)
            while True:
                tmp = Source('<body>', body_text)
                done = True
                for m in tmp.find_code(r'\bmatch\b', 0, len(body_text)):
                    try:
                        scrut, mo, mc, arms = tmp.match_arms(m.start())
                    except Exception:
                        continue
                    if not scrut.endswith('.as_str()'):
                        continue
                    # (string literals are masked out by the scanner: take the pattern text from the end of the previous arm)
                    pats, prev_ = [], mo + 1
                    for (ps, pe, bs, be, blk) in arms:
                        pats.append(re.sub(r'(?m)//[^\n]*$', '', body_text[prev_:pe]).strip().lstrip(',').strip())
                        prev_ = be
                    # (a pattern is one literal or an alternation of literals: "a" | "b")
                    if not pats or pats[-1] != '_' or not all(re.fullmatch(r'"[^"]*"(\s*\|\s*"[^"]*")*', x) for x in pats[:-1]):
                        continue
                    var = scrut[:-len('.as_str()')]
                    # a scrutinee that is not a plain place (a call such as `value.to_lowercase()`) is evaluated once, into a local
                    bind = ''
                    if not re.fullmatch(r'[\w.]+', var.strip()):
                        bind = 'let vx_scrutinee = %s; ' % var.strip()
                        var = 'vx_scrutinee'
                    parts = []
                    for (ps, pe, bs, be, blk), pat in zip(arms, pats):
                        btxt = body_text[bs:be]
                        if not blk:
                            btxt = '{ ' + btxt + ' }'
                        if pat == '_':
                            parts.append(btxt)
                        else:
                            lits = re.findall(r'"[^"]*"', pat)
                            cond = ' || '.join('vx_str_eq(&%s, %s)' % (var.strip(), l) for l in lits)
                            parts.append('if %s %s else ' % (cond, btxt))
                    body_text = body_text[:m.start()] + ('{ ' + bind if bind else '') + ''.join(parts) + (' }' if bind else '') + body_text[mc + 1:]
                    self.rules_fired['E4-strmatch'] = self.rules_fired.get('E4-strmatch', 0) + 1
                    done = False
                    break
                if done:
                    break
        # rule E3b: `stub-block: <regex>` - the `{...}` block that follows the match is replaced by a call to
        # vx_unproved_branch() (ensures false): that branch is ASSUMED, listed as unproved in the evidence
        for ln in sections.get('stub-block', []):
            rx = ln.strip()
            m = re.search(rx, body_text)
            if not m:
                raise AnchorLost('%s: stub-block /%s/ no longer matches' % (label, rx))
            tmp = Source('<body>', body_text)
            bo_ = body_text.index('{', m.end() - 1) if body_text[m.end() - 1] != '{' else m.end() - 1
            bc_ = tmp.match_close(bo_)
            body_text = body_text[:bo_] + '{ vx_unproved_branch() }' + body_text[bc_ + 1:]
            self.local_rewrites.append({'fn': label, 'regex': rx, 'replacement': '<block stubbed: unproved branch>', 'count': 1})
        # ghost insertion (proof blocks only): `ghost-before: <regex> => <proof text>`; the executable text is untouched
        # (`opt-ghost-before`: the same, but a text in which the place is gone is verified without the hint - the obligations stay)
        for optional_, ln in [(False, x) for x in sections.get('ghost-before', [])] + [(True, x) for x in sections.get('opt-ghost-before', [])]:
            rx, rep = ln.split(' => ', 1)
            m = re.search(rx.strip(), body_text)
            if not m and optional_:
                self.local_rewrites.append({'fn': label, 'regex': rx.strip(), 'replacement': '<optional ghost block: place not found, nothing inserted>', 'count': 0})
                continue
            if not m:
                raise AnchorLost('%s: ghost-before /%s/ no longer matches' % (label, rx.strip()))
            if not rep.strip().startswith(('proof {', 'assert', 'broadcast use')):
                raise SystemExit('ghost-before must insert a proof block or assert')
            body_text = body_text[:m.start()] + rep.strip() + '\n' + body_text[m.start():]
            self.local_rewrites.append({'fn': label, 'regex': rx.strip(), 'replacement': '<ghost proof block inserted before>', 'count': 1})
        for key_, after_ in (('ghost-before-all', False), ('ghost-after-all', True)):
            for ln in sections.get(key_, []):
                rx, rep = ln.split(' => ', 1)
                ms = list(re.finditer(rx.strip(), body_text))
                if not ms:
                    raise AnchorLost('%s: %s /%s/ no longer matches' % (label, key_, rx.strip()))
                if not rep.strip().startswith(('proof {', 'assert', 'broadcast use')):
                    raise SystemExit(key_ + ' must insert a proof block or assert')
                for m in reversed(ms):
                    at = m.end() if after_ else m.start()
                    body_text = body_text[:at] + '\n' + rep.strip() + '\n' + body_text[at:]
                self.local_rewrites.append({'fn': label, 'regex': rx.strip(), 'replacement': '<ghost proof block inserted %s every match>' % ('after' if after_ else 'before'), 'count': len(ms)})
        for ln in sections.get('ghost-after', []):
            rx, rep = ln.split(' => ', 1)
            m = re.search(rx.strip(), body_text)
            if not m:
                raise AnchorLost('%s: ghost-after /%s/ no longer matches' % (label, rx.strip()))
            if not rep.strip().startswith(('proof {', 'assert', 'broadcast use')):
                raise SystemExit('ghost-after must insert a proof block or assert')
            body_text = body_text[:m.end()] + '\n' + rep.strip() + '\n' + body_text[m.end():]
            self.local_rewrites.append({'fn': label, 'regex': rx.strip(), 'replacement': '<ghost proof block inserted after>', 'count': 1})
        # loop invariants
        loop_secs = {int(k.split()[1]): v for k, v in sections.items() if k.startswith('loop ')}
        if loop_secs:
            tmp = Source('<body>', body_text)
            loops = tmp.loops_in(0, len(body_text))
            if max(loop_secs) > len(loops):
                raise AnchorLost('%s: loop #%d no longer exists (%d loops)' % (label, max(loop_secs), len(loops)))
            # splice from the back so offsets stay valid
            for n_ in sorted(loop_secs, reverse=True):
                kw, bopen = loops[n_ - 1]
                inv = '\n' + '\n'.join(loop_secs[n_]) + '\n'
                body_text = body_text[:bopen] + inv + body_text[bopen:]
        # closure contracts (rule E5b): the n-th closure of the emitted body gets the annotated header from the contract file
        clo_secs = {int(k.split()[1]): v for k, v in sections.items() if k.startswith('closure ') and k.split()[1].isdigit()}
        # content-addressed closures: `closure ~<regex>:` = the first closure whose text matches (robust against
        # closures being inserted or removed elsewhere in the function)
        clo_rx = {k.split(' ', 1)[1][1:]: v for k, v in sections.items() if k.startswith('closure ~')}
        if clo_rx:
            tmp = Source('<body>', body_text)
            clos = tmp.closures_in(0, len(body_text))
            for rx_, v_ in clo_rx.items():
                nth = None          # None = every closure whose header+body starts with the pattern
                mm_ = re.match(r'^(.*) #(\d+)$', rx_)
                if mm_:
                    rx_, nth = mm_.group(1), int(mm_.group(2))
                seen_ = 0
                hits = []
                for idx_, (bar, hend, bs, be, is_block) in enumerate(clos):
                    if re.match(rx_, body_text[bar:be]):
                        seen_ += 1
                        if nth is None or seen_ == nth:
                            hits.append(idx_ + 1)
                if not hits:
                    # the closure is not there (any more): nothing to annotate
                    self.local_rewrites.append({'fn': label, 'regex': rx_, 'replacement': '<closure contract: no closure matches>', 'count': 0})
                    continue
                for h_ in hits:
                    clo_secs[h_] = v_
        if clo_secs:
            tmp = Source('<body>', body_text)
            clos = tmp.closures_in(0, len(body_text))
            if max(clo_secs) > len(clos):
                raise AnchorLost('%s: closure #%d no longer exists (%d closures)' % (label, max(clo_secs), len(clos)))
            arith = set(int(x) for x in ' '.join(sections.get('arith-standin', [])).split())
            clos = [list(c) for c in clos]
            for n_ in sorted(clo_secs, reverse=True):
                bar, hend, bs, be, is_block = clos[n_ - 1]
                len_before_ = len(body_text)
                if n_ in arith:
                    # rule E4-arith: `a op b` on plain identifiers -> VxArith::vx_op(a, b) (type-directed stand-in, see prelude)
                    seg = body_text[bs:be]
                    names = {'+': 'vx_add', '-': 'vx_sub', '*': 'vx_mul', '/': 'vx_div'}
                    seg2, cnt = re.subn(r'(?<![\w.)])(\*?\w+) ([-+*/]) (\*?\w+)(?![\w(.])', lambda m: '%s(%s, %s)' % (names[m.group(2)], m.group(1), m.group(3)), seg)
                    seg2, cnt2 = re.subn(r'(?<![\w.)\]] )-(x)\b(?![\w(.])', r'vx_neg(\1)', seg2)
                    if cnt + cnt2:
                        self.rules_fired['E4-arith'] = self.rules_fired.get('E4-arith', 0) + cnt + cnt2
                        body_text = body_text[:bs] + seg2 + body_text[be:]
                        be = bs + len(seg2)
                lines_ = clo_secs[n_]
                header = lines_[0].strip()
                spec = '\n'.join(lines_[1:])
                # the parameter names in the contract header must be the ones in the source
                def _param_names(h):
                    h = h.strip()
                    inner = h[h.index('|') + 1:h.rindex('|')]
                    parts, depth, cur_ = [], 0, ''
                    for ch in inner:
                        if ch in '([<':
                            depth += 1
                        elif ch in ')]>':
                            depth -= 1
                        if ch == ',' and depth == 0:
                            parts.append(cur_)
                            cur_ = ''
                        else:
                            cur_ += ch
                    if cur_.strip():
                        parts.append(cur_)
                    return [re.sub(r'\s+', '', x.split(':')[0]) if not x.strip().startswith('(') else re.sub(r'\s+', '', x.rsplit(':', 1)[0]) for x in parts]
                src_params = _param_names(body_text[bar:hend])
                hdr_params = _param_names(header[:header.index('->')] if '->' in header else header)
                if src_params != hdr_params:
                    raise AnchorLost('%s: closure #%d parameters changed: %s vs contract %s' % (label, n_, src_params, hdr_params))
                body_c = body_text[bs:be]
                if not is_block:
                    body_c = '{ ' + body_c + ' }'
                body_text = body_text[:bar] + header + '\n' + spec + '\n' + body_c + body_text[be:]
                # a closure that encloses this one ends later now (nested closures: the inner one is spliced first)
                grown_ = len(body_text) - len_before_
                for c_ in clos:
                    if c_[0] < bar and c_[3] >= be:
                        c_[3] += grown_
        # rule E6b: a module-level constant of the function's source file that the body names (`const NAME: <plain type> = <literal>;`)
        # and that the template does not know is repeated as a local `const` item at the top of the emitted body - a constant
        # introduced or renamed by a change stays decidable, with its value
        for cname_ in sorted(set(re.findall(r'\b[A-Z][A-Z0-9_]{2,}\b', body_text))):
            if re.search(r'\b%s\b' % cname_, getattr(self, 'template_text', '')):
                continue
            mc_ = re.search(r"(?m)^(?:pub(?:\([a-z]+\))?\s+)?const %s\s*:\s*(usize|u8|u32|u64|i32|i64|bool|f64|&(?:'static )?str)\s*=\s*(\"(?:[^\"\\\\]|\\\\.)*\"|[^;\n]+);" % cname_, s.text)
            if not mc_ or not re.fullmatch(r'[0-9][0-9_]*(?:\s*(?:[*+\-]|<<)\s*[0-9][0-9_]*)*|[0-9][0-9_]*\.[0-9_]+|"[^"\\]*"|true|false', mc_.group(2).strip()):
                continue
            body_text = '{\nconst %s: %s = %s;   // (module-level constant of %s, repeated here: rule E6b)\n' % (cname_, "&'static str" if mc_.group(1) == '&str' else mc_.group(1), mc_.group(2).strip(), kv['file']) + body_text[1:]
            self.local_rewrites.append({'fn': label, 'regex': '<const %s>' % cname_, 'replacement': '<module-level constant repeated as a local item>', 'count': 1})
            self.rules_fired['E6b'] = self.rules_fired.get('E6b', 0) + 1
        if 'pre' in sections:
            body_text = '{\n' + '\n'.join(sections['pre']) + '\n' + body_text[1:]

        contract = sections.get('contract', [])
        start_out = len(self.out_lines) + 1
        where = '%s:%d-%d' % (kv['file'], src_lines[0], src_lines[1])
        self.emit('// ---- extracted fn %s from %s%s' % (label, where, (' arm `%s`' % arm_desc) if arm_desc else ''))
        for a in sections.get('attr', []):
            self.emit(a.strip())
        self.emit(sig_out)
        clauses = []
        for ln in contract:
            self.out_lines.append(ln)
            m = re.search(r'//\s*#([\w.\-:]+)', ln)
            if m:
                self.clause_lines[len(self.out_lines)] = (label, m.group(1))
                clauses.append(m.group(1))
        body_out_start = len(self.out_lines) + 1
        self.emit(body_text)
        # loop invariant clause ids
        for idx in range(body_out_start, len(self.out_lines) + 1):
            m = re.search(r'//\s*#([\w.\-:]+)', self.out_lines[idx - 1])
            if m and idx not in self.clause_lines:
                self.clause_lines[idx] = (label, m.group(1))
                clauses.append(m.group(1))
        end_out = len(self.out_lines)
        self.fn_ranges.append((start_out, end_out, label, kv['file'], src_lines[0], body_out_start))
        self.functions.append({'fn': label, 'file': kv['file'], 'src_lines': src_lines, 'arm': arm_desc,
                               'clauses': clauses, 'rules': fired})

    # ------------------------------------------------------------ driver
    def expand(self, template_text):
        lines = template_text.split('\n')
        # //@include <file> (relative to /verif/contracts), expanded first, recursively
        k = 0
        while k < len(lines):
            st = lines[k].strip()
            if st.startswith('//@include'):
                inc = st[len('//@include'):].strip()
                # `//@include file except=tag1,tag2`: the blocks `//@tag <name>` ... `//@endtag` with these names are left out
                # (a unit that extracts a function for real leaves out the prelude's stand-in for it)
                drop = set()
                if ' except=' in inc:
                    inc, ex = inc.split(' except=', 1)
                    drop = set(x.strip() for x in ex.split(','))
                    inc = inc.strip()
                path = os.path.join(os.path.dirname(os.path.abspath(__file__)), '..', 'contracts', inc)
                inc_lines, skipping = [], False
                for il in open(path).read().split('\n'):
                    ist = il.strip()
                    if ist.startswith('//@tag '):
                        skipping = ist[len('//@tag '):].strip() in drop
                        continue
                    if ist.startswith('//@endtag'):
                        skipping = False
                        continue
                    if not skipping:
                        inc_lines.append(il)
                lines[k:k + 1] = inc_lines
                continue
            k += 1
        self.template_text = '\n'.join(lines)
        i = 0
        while i < len(lines):
            ln = lines[i]
            st = ln.strip()
            if st.startswith('//@if-src'):
                kv = parse_kv(st[len('//@if-src'):])
                cond = re.search(kv['re'], self.src(kv['file']).text) is not None
                self.variants.append({'file': kv['file'], 're': kv['re'], 'taken': cond})
                # collect branches
                depth = 1
                j = i + 1
                then_l, else_l, cur_l = [], [], None
                cur_l = then_l
                while j < len(lines):
                    sj = lines[j].strip()
                    if sj.startswith('//@if-src'):
                        depth += 1
                    elif sj.startswith('//@endif'):
                        depth -= 1
                        if depth == 0:
                            break
                    elif sj.startswith('//@else') and depth == 1:
                        cur_l = else_l
                        j += 1
                        continue
                    cur_l.append(lines[j])
                    j += 1
                lines[i:j + 1] = then_l if cond else else_l
                continue
            if st.startswith('//@const'):
                # //@const NAME file=<path> re="<regex with one group>"  -> `pub open spec fn NAME() -> int { <group 1> }`
                rest = st[len('//@const'):].strip()
                cname, rest = rest.split(' ', 1)
                kv = parse_kv(rest)
                mm = re.search(kv['re'], self.src(kv['file']).text)
                if not mm:
                    raise AnchorLost('constant %s: /%s/ not found in %s' % (cname, kv['re'], kv['file']))
                self.consts = getattr(self, 'consts', {})
                self.consts[cname] = mm.group(1)
                lines[i] = 'pub open spec fn %s() -> int { %s }   // read from %s' % (cname, mm.group(1), kv['file'])
                continue
            if st.startswith('//@srctext'):
                # //@srctext NAME file=<path> re="<regex with one group>": NAME in the rest of the template stands for the
                # source text of group 1 (white space normalised) - e.g. the elements of a literal table
                rest = st[len('//@srctext'):].strip()
                cname, rest = rest.split(' ', 1)
                kv = parse_kv(rest)
                mm = re.search(kv['re'], self.src(kv['file']).text, re.S)
                if not mm:
                    raise AnchorLost('source text %s: /%s/ not found in %s' % (cname, kv['re'], kv['file']))
                val = re.sub(r'\s+', ' ', mm.group(1)).strip().rstrip(',')
                lines[i] = '// %s read from %s: %s' % (cname, kv['file'], val)
                for j in range(i + 1, len(lines)):
                    if not lines[j].strip().startswith('//@'):
                        lines[j] = re.sub(r'\b%s\b' % cname, val.replace('\\', '\\\\'), lines[j])
                continue
            if st.startswith('//@fields'):
                # //@fields file=<path> name=<Struct> expect="a,b,c" : a hand re-declared struct (rule E2) must list exactly
                # the fields of the real one - otherwise the unit is UNDECIDED
                kv = parse_kv(st[len('//@fields'):])
                src_ = self.src(kv['file'])
                try:
                    hs, bo, bc = src_.find_item('struct', kv['name'])
                except ScanError as e:
                    raise AnchorLost(str(e))
                body = strip_attrs(src_.text[bo + 1:bc])
                names = re.findall(r'(?m)^\s*(?:pub(?:\([a-z]+\))?\s+)?(\w+)\s*:', body)
                want = [x.strip() for x in kv['expect'].split(',') if x.strip()]
                if names != want:
                    # a struct that GAINED fields of plain types (a cache, a flag, a counter) keeps its stand-in: the new fields are added to
                    # the re-declared struct with their own types, so that the functions that use them are still decided.  Anything
                    # else (a field removed, renamed, reordered, or of a type the units do not model) is UNDECIDED.
                    plain_ = r'(?:bool|usize|u8|u32|u64|i32|i64|f64|String|Vec<(?:usize|String|bool|i64|u8)>|Option<(?:usize|String|bool|i64)>)'
                    decls_ = dict((m_.group(1), m_.group(2).strip().rstrip(',')) for m_ in re.finditer(r'(?m)^\s*(?:pub(?:\([a-z]+\))?\s+)?(\w+)\s*:\s*([^\n]+?),?\s*$', body))
                    extra_ = [n_ for n_ in names if n_ not in want]
                    kept_ = [n_ for n_ in names if n_ in want]
                    ok_ = kept_ == want and extra_ and all(re.fullmatch(plain_, decls_.get(n_, '')) for n_ in extra_)
                    at_ = None
                    if ok_:
                        for j_ in range(i + 1, min(i + 4, len(lines))):
                            if re.match(r'\s*pub struct %s\b' % re.escape(kv['name']), lines[j_]):
                                for k_ in range(j_ + 1, len(lines)):
                                    if lines[k_].strip() == '}':
                                        at_ = k_
                                        break
                                break
                    if not ok_ or at_ is None:
                        raise AnchorLost('struct %s in %s has fields %s, the stand-in declares %s' % (kv['name'], kv['file'], names, want))
                    if not lines[at_ - 1].rstrip().endswith(','):
                        lines[at_ - 1] = lines[at_ - 1].rstrip() + ','
                    lines[at_:at_] = ['    pub %s: %s,   // (field added in the tree under test: taken over as declared there)' % (n_, decls_[n_]) for n_ in extra_]
                    self.local_rewrites.append({'fn': 'struct ' + kv['name'], 'regex': '<fields>', 'replacement': '<new plain fields taken over: %s>' % ', '.join(extra_), 'count': len(extra_)})
                self.items.append({'file': kv['file'], 'kind': 'struct-fields-checked', 'name': kv['name'], 'lines': [src_.line_of(hs), src_.line_of(bc)]})
                lines[i] = '// fields of %s checked against %s: %s' % (kv['name'], kv['file'], ', '.join(names))
                continue
            if st.startswith('//@define'):
                k, v = st[len('//@define'):].strip().split(' ', 1)
                self.defines[k] = v.strip()
                i += 1
                continue
            if st.startswith('//@auto-setters'):
                self.do_auto_setters(parse_kv(st[len('//@auto-setters'):]))
                i += 1
                continue
            if st.startswith('//@item'):
                self.do_item(parse_kv(st[len('//@item'):]))
                i += 1
            elif st.startswith('//@fn'):
                kv = parse_kv(st[len('//@fn'):])
                sections = {}
                cur = None
                i += 1
                while i < len(lines) and not lines[i].strip().startswith('//@end'):
                    l2 = lines[i]
                    s2 = l2.strip()
                    if s2.startswith('//@'):
                        m = re.match(r'//@\s+([a-z\-]+(?: \d+| ~.+?)?):\s(.*)$', s2) or re.match(r'//@\s+([a-z\-]+(?: \d+| ~.+?)?):()$', s2)
                        if not m:
                            raise SystemExit('bad directive line: ' + l2)
                        key = m.group(1)
                        if key in ('replace', 'opt-replace', 'stub-block', 'ghost-before', 'opt-ghost-before', 'ghost-after', 'ghost-before-all', 'ghost-after-all'):
                            sections.setdefault(key, []).append(m.group(2))
                            cur = None
                        else:
                            cur = key
                            sections.setdefault(cur, [])
                            if m.group(2).strip():
                                sections[cur].append(m.group(2))
                    else:
                        if cur is not None:
                            sections[cur].append(l2)
                    i += 1
                i += 1
                self.do_fn(kv, sections)
            else:
                # named clauses in hand-written lemmas / stand-ins are also addressable
                self.out_lines.append(ln)
                i += 1
        text = '\n'.join(self.out_lines) + '\n'
        if 'ReverseSearcher' in text:
            # the where-clause of str::ends_with names an unstable trait; the feature gate only affects the declaration
            text = '#![feature(pattern)]\n' + text
            self.out_lines.insert(0, '#![feature(pattern)]')
            self.clause_lines = {k + 1: v for k, v in self.clause_lines.items()}
            self.fn_ranges = [(a + 1, b + 1, l, f, sl, bs + 1) for (a, b, l, f, sl, bs) in self.fn_ranges]
        return text

    def locate(self, out_line):
        """map an output line to (fn label, clause id or None, src_file, src_line or None)"""
        clause = self.clause_lines.get(out_line)
        for (a, b, label, f, src_start, body_out_start) in self.fn_ranges:
            if a <= out_line <= b:
                return label, (clause[1] if clause else None), f
        return None, (clause[1] if clause else None), None


def scan_assumptions(text):
    """mechanical scan of the generated file for everything that is assumed rather than proved"""
    found = []
    lines = text.split('\n')
    for idx, ln in enumerate(lines):
        s = ln.strip()
        if s.startswith('//'):
            continue
        for kw in ('external_body', 'assume_specification', 'assume(', 'admit(', 'external_type_specification',
                   'external_fn_specification', 'uninterp', 'axiom', '#[verifier::external]', 'exec_allows_no_decreases_clause'):
            if kw in s:
                # describe with the next line that has an identifier
                ctx = s
                for k in range(idx, min(idx + 6, len(lines))):
                    m = re.search(r'\b(fn|struct|enum|type|impl)\s+[\w:<>, &\']+', lines[k])
                    if m:
                        ctx = m.group(0)
                        break
                found.append('%s: %s' % (kw.rstrip('('), ctx.strip()))
                break
    # de-duplicate, keep order
    seen = set()
    out = []
    for f in found:
        if f not in seen:
            seen.add(f)
            out.append(f)
    return out


if __name__ == '__main__':
    import argparse
    ap = argparse.ArgumentParser()
    ap.add_argument('template')
    ap.add_argument('--repo', default='/repo')
    ap.add_argument('-o', '--out', required=True)
    a = ap.parse_args()
    ex = Expander(a.repo)
    try:
        text = ex.expand(open(a.template).read())
    except AnchorLost as e:
        print('UNDECIDED anchor lost: %s' % e)
        sys.exit(2)
    open(a.out, 'w').write(text)
    print(json.dumps({'functions': ex.functions, 'rules': ex.rules_fired, 'local': ex.local_rewrites}, indent=1))
