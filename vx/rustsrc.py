"""Minimal Rust source scanner used by the extractor.

It does not parse Rust; it lexes just enough (comments, string/char literals,
lifetimes, brackets) to find items by name, match braces, enumerate match arms
and locate loop headers.  Everything it returns is a byte-exact slice of the
source file plus its line range.
"""
import re


class ScanError(Exception):
    pass


def lex_mask(text):
    """Return a list `code` with code[i] True iff text[i] is ordinary code
    (not inside a comment / string / char literal)."""
    n = len(text)
    code = [True] * n
    i = 0
    while i < n:
        c = text[i]
        if c == '/' and i + 1 < n and text[i + 1] == '/':
            j = text.find('\n', i)
            if j < 0:
                j = n
            for k in range(i, j):
                code[k] = False
            i = j
        elif c == '/' and i + 1 < n and text[i + 1] == '*':
            depth = 1
            j = i + 2
            while j < n and depth > 0:
                if text.startswith('/*', j):
                    depth += 1
                    j += 2
                elif text.startswith('*/', j):
                    depth -= 1
                    j += 2
                else:
                    j += 1
            for k in range(i, j):
                code[k] = False
            i = j
        elif c == '"' or (c == 'b' and i + 1 < n and text[i + 1] == '"' and not _ident_char(text, i - 1)):
            if c == 'b':
                i += 1
            j = i + 1
            while j < n and text[j] != '"':
                if text[j] == '\\':
                    j += 1
                j += 1
            for k in range(i, min(j + 1, n)):
                code[k] = False
            i = j + 1
        elif c == 'r' and not _ident_char(text, i - 1) and re.match(r'r#*"', text[i:i + 12]):
            m = re.match(r'r(#*)"', text[i:i + 12])
            hashes = m.group(1)
            end = text.find('"' + hashes, i + len(m.group(0)))
            if end < 0:
                end = n
            end += 1 + len(hashes)
            for k in range(i, min(end, n)):
                code[k] = False
            i = end
        elif c == "'":
            # char literal or lifetime
            if i + 1 < n and text[i + 1] == '\\':
                j = text.find("'", i + 2)
                if j >= 0 and text[j - 1] == '\\' and text[j - 2] != '\\':
                    j = text.find("'", j + 1)
                for k in range(i, min(j + 1, n)):
                    code[k] = False
                i = j + 1
            elif i + 2 < n and text[i + 2] == "'":
                for k in range(i, i + 3):
                    code[k] = False
                i += 3
            else:
                # possibly a multi-byte char literal like 'é' (python str: one char) -> handled above
                i += 1
        else:
            i += 1
    return code


def _ident_char(text, i):
    return i >= 0 and (text[i].isalnum() or text[i] == '_')


OPEN = {'{': '}', '(': ')', '[': ']'}
CLOSE = {'}': '{', ')': '(', ']': '['}


class Source:
    def __init__(self, path, text=None):
        self.path = path
        if text is None:
            with open(path, encoding='utf-8') as f:
                text = f.read()
        self.text = text
        self.code = lex_mask(text)
        # line starts
        self.line_starts = [0]
        for m in re.finditer('\n', text):
            self.line_starts.append(m.end())

    def line_of(self, off):
        import bisect
        return bisect.bisect_right(self.line_starts, off)

    def match_close(self, open_off):
        """offset of the bracket closing the one at open_off"""
        t = self.text
        stack = []
        i = open_off
        n = len(t)
        while i < n:
            if self.code[i]:
                c = t[i]
                if c in OPEN:
                    stack.append(c)
                elif c in CLOSE:
                    if not stack or stack[-1] != CLOSE[c]:
                        raise ScanError('%s: unbalanced bracket at line %d' % (self.path, self.line_of(i)))
                    stack.pop()
                    if not stack:
                        return i
            i += 1
        raise ScanError('%s: unclosed bracket from line %d' % (self.path, self.line_of(open_off)))

    def find_code(self, pattern, start=0, end=None):
        """iterate regex matches that begin in code (not comment/string)"""
        if end is None:
            end = len(self.text)
        for m in re.finditer(pattern, self.text[:end]):
            if m.start() >= start and self.code[m.start()]:
                yield m

    def depth_at(self, off, base=0):
        """brace depth ({} only) at offset, counting from base"""
        d = 0
        for i in range(base, off):
            if self.code[i]:
                if self.text[i] == '{':
                    d += 1
                elif self.text[i] == '}':
                    d -= 1
        return d

    # ---------------------------------------------------------------- items
    def top_items(self):
        """yield (header_text, header_start, body_open, body_close) for every
        `impl`/`fn`/`enum`/`struct`/`trait` at brace depth 0"""
        t = self.text
        depth = 0
        i = 0
        n = len(t)
        out = []
        kw = re.compile(r'\b(impl|fn|enum|struct|trait|mod)\b')
        while i < n:
            if not self.code[i]:
                i += 1
                continue
            c = t[i]
            if c == '{':
                depth += 1
                i += 1
                continue
            if c == '}':
                depth -= 1
                i += 1
                continue
            if depth == 0:
                m = kw.match(t, i)
                if m and not _ident_char(t, i - 1):
                    # find the opening brace or ';' of this item
                    j = m.end()
                    pd = 0
                    while j < n:
                        if self.code[j]:
                            cj = t[j]
                            if cj in '([':
                                pd += 1
                            elif cj in ')]':
                                pd -= 1
                            elif cj == '{' and pd == 0:
                                break
                            elif cj == ';' and pd == 0:
                                break
                        j += 1
                    if j < n and t[j] == '{':
                        close = self.match_close(j)
                        # extend header start backwards over `pub`, `pub(crate)`, attributes stay out
                        hs = i
                        ls = t.rfind('\n', 0, i) + 1
                        prefix = t[ls:i]
                        if re.fullmatch(r'\s*(pub(\([a-z]+\))?\s+)?(unsafe\s+)?', prefix):
                            hs = ls + (len(prefix) - len(prefix.lstrip()))
                        out.append((m.group(1), t[hs:j].strip(), hs, j, close))
                        if m.group(1) in ('impl', 'trait', 'mod'):
                            pass
                        i = close + 1
                        continue
                    else:
                        if m.group(1) == 'struct' and j < n:
                            hs = i
                            ls = t.rfind('\n', 0, i) + 1
                            prefix = t[ls:i]
                            if re.fullmatch(r'\s*(pub(\([a-z]+\))?\s+)?', prefix):
                                hs = ls + (len(prefix) - len(prefix.lstrip()))
                            out.append(('struct', t[hs:j].strip(), hs, j, j))
                        i = j + 1
                        continue
            i += 1
        return out

    def find_item(self, kind, name):
        for k, header, hs, bo, bc in self.top_items():
            if k == kind and re.search(r'\b%s\b\s+%s\b' % (kind, re.escape(name)), header):
                return hs, bo, bc
        raise ScanError('%s: %s %s not found' % (self.path, kind, name))

    def find_fn(self, impl_header, name):
        """impl_header: normalised text of the impl header ('impl Value', 'impl Ord for Float',
        'impl<'a, T: ColumnProvider> ExpressionExecutionEngine<'a, T>') or '-' for a free fn.
        Returns (sig_start, body_open, body_close)."""
        norm = lambda s: re.sub(r'\s+', ' ', s).strip()
        if impl_header == '-':
            for k, header, hs, bo, bc in self.top_items():
                if k == 'fn' and re.search(r'\bfn\s+%s\b' % re.escape(name), header):
                    return hs, bo, bc
            raise ScanError('%s: free fn %s not found' % (self.path, name))
        found_impl = False
        for k, header, hs, bo, bc in self.top_items():
            if k in ('impl', 'trait') and norm(header) == norm(impl_header):
                found_impl = True
                r = self._find_fn_in(bo, bc, name)
                if r:
                    return r
        if not found_impl:
            raise ScanError('%s: `%s` not found' % (self.path, impl_header))
        raise ScanError('%s: fn %s not found in `%s`' % (self.path, name, impl_header))

    def _find_fn_in(self, bo, bc, name):
        t = self.text
        depth = 0
        i = bo
        pat = re.compile(r'\bfn\s+%s\b' % re.escape(name))
        while i <= bc:
            if self.code[i]:
                c = t[i]
                if c == '{':
                    depth += 1
                elif c == '}':
                    depth -= 1
                elif depth == 1 and c == 'f':
                    m = pat.match(t, i)
                    if m and not _ident_char(t, i - 1):
                        j = m.end()
                        pd = 0
                        while j < bc:
                            if self.code[j]:
                                cj = t[j]
                                if cj in '([':
                                    pd += 1
                                elif cj in ')]':
                                    pd -= 1
                                elif cj == '{' and pd == 0:
                                    break
                                elif cj == ';' and pd == 0:
                                    break
                            j += 1
                        if t[j] != '{':
                            return None
                        close = self.match_close(j)
                        ls = t.rfind('\n', 0, i) + 1
                        prefix = t[ls:i]
                        hs = i
                        if re.fullmatch(r'\s*(pub(\([a-z]+\))?\s+)?(unsafe\s+)?', prefix):
                            hs = ls + (len(prefix) - len(prefix.lstrip()))
                        return hs, j, close
            i += 1
        return None

    # ---------------------------------------------------------------- arms
    def match_arms(self, match_kw_off):
        """Given the offset of a `match` keyword, return (scrutinee_text, open, close, arms) where arms
        is a list of (pat_start, pat_end, body_start, body_end, is_block)."""
        t = self.text
        j = match_kw_off + len('match')
        pd = 0
        n = len(t)
        while j < n:
            if self.code[j]:
                cj = t[j]
                if cj in '([':
                    pd += 1
                elif cj in ')]':
                    pd -= 1
                elif cj == '{' and pd == 0:
                    break
            j += 1
        mopen = j
        mclose = self.match_close(mopen)
        scrut = t[match_kw_off + len('match'):mopen].strip()
        arms = []
        i = mopen + 1
        while True:
            while i < mclose and (t[i].isspace() or not self.code[i]):
                i += 1
            if i >= mclose:
                break
            ps = i
            # pattern up to `=>` at depth 0
            d = 0
            while i < mclose:
                if self.code[i]:
                    c = t[i]
                    if c in OPEN:
                        d += 1
                    elif c in CLOSE:
                        d -= 1
                    elif c == '=' and t[i + 1] == '>' and d == 0:
                        break
                i += 1
            pe = i
            i += 2
            while i < mclose and (t[i].isspace() or not self.code[i]):
                i += 1
            bs = i
            if t[i] == '{':
                be = self.match_close(i) + 1
                is_block = True
                i = be
                # a block may be followed by method calls? (not in this code base) -> accept only `,` or ws
                k = i
                while k < mclose and t[k].isspace():
                    k += 1
                if k < mclose and t[k] == ',':
                    i = k + 1
                elif k < mclose and t[k] in '.?':
                    # expression continuing after block: treat as expression arm
                    is_block = False
                    d = 0
                    while k < mclose:
                        if self.code[k]:
                            c = t[k]
                            if c in OPEN:
                                d += 1
                            elif c in CLOSE:
                                d -= 1
                            elif c == ',' and d == 0:
                                break
                        k += 1
                    be = k
                    i = k + 1
            else:
                is_block = False
                d = 0
                while i < mclose:
                    if self.code[i]:
                        c = t[i]
                        if c in OPEN:
                            d += 1
                        elif c in CLOSE:
                            d -= 1
                        elif c == ',' and d == 0:
                            break
                    i += 1
                be = i
                while be > bs and t[be - 1].isspace():
                    be -= 1
                i += 1
            arms.append((ps, pe, bs, be, is_block))
        return scrut, mopen, mclose, arms

    def loops_in(self, start, end):
        """offsets of (kw_start, body_open) for each loop header in [start,end) in source order"""
        t = self.text
        res = []
        for m in self.find_code(r'\b(loop|while|for)\b', start, end):
            if _ident_char(t, m.start() - 1):
                continue
            kw = m.group(1)
            if kw == 'for' and re.match(r'for\s*<', t[m.start():m.start() + 8]):
                continue
            j = m.end()
            pd = 0
            while j < end:
                if self.code[j]:
                    cj = t[j]
                    if cj in '([':
                        pd += 1
                    elif cj in ')]':
                        pd -= 1
                    elif cj == '{' and pd == 0:
                        break
                j += 1
            res.append((m.start(), j))
        return res

    def closures_in(self, start, end):
        """closures in [start,end) in source order: (bar_start, header_end, body_start, body_end, is_block)"""
        t = self.text
        res = []
        i = start
        while i < end:
            if self.code[i] and t[i] == '|':
                # previous significant char
                k = i - 1
                while k >= start and (t[k].isspace() or not self.code[k]):
                    k -= 1
                prev = t[k] if k >= start else '('
                prev_word = re.search(r'(\w+)\s*$', t[max(start, i - 12):i])
                is_start = prev in '(,=' and not (prev == '=' and t[k - 1] in '=!<>|&')
                if prev_word and prev_word.group(1) in ('move', 'return'):
                    is_start = True
                if not is_start:
                    i += 1
                    continue
                if t[i + 1] == '|':
                    hend = i + 2
                else:
                    j = i + 1
                    d = 0
                    while j < end:
                        if self.code[j]:
                            if t[j] in '([<':
                                d += 1
                            elif t[j] in ')]>':
                                d -= 1
                            elif t[j] == '|' and d <= 0:
                                break
                        j += 1
                    hend = j + 1
                b = hend
                while b < end and t[b].isspace():
                    b += 1
                if t[b] == '{':
                    be = self.match_close(b) + 1
                    res.append((i, hend, b, be, True))
                else:
                    j = b
                    d = 0
                    while j < end:
                        if self.code[j]:
                            c = t[j]
                            if c in OPEN:
                                d += 1
                            elif c in CLOSE:
                                if d == 0:
                                    break
                                d -= 1
                            elif c == ',' and d == 0:
                                break
                            elif c == ';' and d == 0:
                                break
                        j += 1
                    be = j
                    while be > b and t[be - 1].isspace():
                        be -= 1
                    res.append((i, hend, b, be, False))
                i = hend
                continue
            i += 1
        return res
