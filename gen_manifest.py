#!/usr/bin/env python3
"""Writes MANIFEST.json from checks.py (single source of truth for what is claimed)."""
import json, os, sys
HERE = os.path.dirname(os.path.abspath(__file__))
sys.path.insert(0, HERE)
import checks

ALL = ['C%02d' % i for i in range(1, 21)]
m = {
    'version': 1,
    'setup_cmd': 'python3 /verif/setup_check.py',
    'hooks': {
        'guard': 'none (no hooks: all annotation happens on text extracted from /repo or on a scratch copy of the crate)',
        'enable': 'n/a - checks read /repo/src directly (Verus units) or copy /repo to a scratch directory and append #[cfg(kani)] harness modules there',
        'baseline_off_cmd': 'cd /repo && cargo test --workspace --no-fail-fast --offline',
        'source_commits': [],
        'add_only': True,
    },
    'engines': [
        {'name': 'verus-extract', 'path': 'vx/extract.py + contracts/*.vrs + run_check.py',
         'serves_properties': [p for p in ALL if p in checks.CHECKS and checks.CHECKS[p]['verus_units']],
         'kind_free_text': 'deductive verification (Verus/Z3) of functions cut mechanically from /repo on every run, with contracts spliced in'},
        {'name': 'kani-scratch', 'path': 'kanirun.py + kani/*.rs',
         'serves_properties': [p for p in ALL if p in checks.CHECKS and checks.CHECKS[p].get('kani')],
         'kind_free_text': 'Kani/CBMC harnesses on a scratch copy of the real crate; loop-free full-domain harnesses are complete proofs, others are labelled bounded'},
        {'name': 'bounded-grid', 'path': 'gridrun.py + grid/*.rs',
         'serves_properties': [p for p in ALL if p in checks.CHECKS and checks.CHECKS[p].get('grid')],
         'kind_free_text': 'bounded stand-in, never counted as proof: the real crate (scratch copy of the tree under test) is executed through its public API over a stated finite input grid and judged by an oracle written from the property statement; runs when the contract proof is undecided on the tree under test, when an obligation failed (to attach a concrete failing input) and in the thorough tier'},
    ],
    'checks': [],
    'not_applicable': [],
    'notes': 'See DESIGN.md. Exit 2 from a check means UNDECIDED (anchor lost / construct rejected / resource limit), never a violation. Where a property has a bounded stand-in (grid), an undecided proof on a changed tree is followed by the grid: a failing case is a VIOLATION with a concrete input, no failing case prints OK-BOUNDED and exits 0 (the property held on everything explored; the evidence says bounded).',
}
for p in ALL:
    if p in checks.CHECKS:
        c = checks.CHECKS[p]
        m['checks'].append({
            'property_id': p,
            'quick_cmd': './run_check.py %s --tier quick' % p,
            'thorough_cmd': './run_check.py %s --tier thorough' % p,
            'evidence_file': '/verif/evidence/%s.json' % p,
            'replay_cmd_template': './run_check.py %s --replay {path}' % p,
            'engine': 'kani-scratch' if (c.get('kani') and not c['verus_units']) else 'verus-extract',
            'level_claimed': {'category': c.get('level', 'proof'), 'text': c['claim'], 'design_ref': c.get('design_ref', 'DESIGN.md section 6 / ' + p)},
            'level_note': c['note'],
            'technique': c['technique'] + ('; bounded stand-in (labelled bounded, not counted as proved): executed input grid grid/%s.rs with an oracle from the property statement - %s' % (c['grid']['sets'][0], c['grid']['bound']) if c.get('grid') else ''),
        })
    else:
        m['not_applicable'].append({'property_id': p, 'reason': checks.NOT_APPLICABLE.get(p, 'not yet under contract in this build (see DESIGN.md)')})
json.dump(m, open(os.path.join(HERE, 'MANIFEST.json'), 'w'), indent=1)
print('wrote MANIFEST.json: %d checks, %d not applicable' % (len(m['checks']), len(m['not_applicable'])))
