#!/bin/sh
# usage: seed_round.sh <Cxx> <variant>  - confirms a sub-agent's change in its worktree /tmp/wt/<Cxx>, copies it to /verif/seeded/ and
# evaluates it with the property's check on a scratch copy (never /repo)
P=$1; V=$2
cd /verif
./seed_confirm.sh $P $V | tail -1
./seed_keep.py $P $V pending "see notes.md" >/dev/null
./seed_table.py -j 1 ${P}_$V | grep "^${P}_$V" | cut -c1-220
