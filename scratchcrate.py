"""Scratch copies of the tree under test for builds that share one cargo target directory.

cargo decides freshness by source mtimes and names artifacts by package id; two copies of the same package built into one
target directory would silently reuse (or overwrite) each other's artifacts.  Every scratch copy therefore gets a unique
PACKAGE name (the library keeps its name `sqlgrep`, so `use sqlgrep::...` is unchanged); only the dependencies - whose
artifacts do not depend on the tree under test - are shared.  The artifacts of the unique package are deleted afterwards.
The copy's Cargo.toml differs from /repo's in exactly two lines: the package name and `crate-type = ["rlib"]` (no cdylib)."""
import glob
import os
import re
import shutil
import subprocess
import uuid


def target_dir(repo='/repo'):
    return os.environ.get('VERIF_CARGO_TARGET') or '/repo/target'


def make(repo, dst, tests_dir=False):
    shutil.rmtree(dst, ignore_errors=True)
    subprocess.run(['rsync', '-a', '--exclude', 'target', '--exclude', '.git', repo.rstrip('/') + '/', dst + '/'], check=True)
    unique = 'sqlgrep_vs_' + uuid.uuid4().hex[:10]
    for fn in ('Cargo.toml', 'Cargo.lock'):
        p = os.path.join(dst, fn)
        if os.path.exists(p):
            t = open(p).read()
            t2 = re.sub(r'^name = "sqlgrep"$', 'name = "%s"' % unique, t, count=1, flags=re.M)
            # a cdylib/rlib library is written to deps/ WITHOUT a hash in its file name (deps/libsqlgrep.rlib), i.e. every copy
            # of the crate would write the same file: build the copy as a plain rlib, whose artifact carries the package hash
            t2 = re.sub(r'^crate-type = \["rlib", "cdylib"\]$', 'crate-type = ["rlib"]', t2, flags=re.M)
            open(p, 'w').write(t2)
    os.makedirs(os.path.join(dst, '.cargo'), exist_ok=True)
    with open(os.path.join(dst, '.cargo', 'config.toml'), 'w') as f:
        f.write('[net]\noffline = true\n')
    return unique


def cleanup(unique, target=None):
    target = target or target_dir()
    for sub in ('debug', 'release'):
        for d in ('deps', '.fingerprint', 'incremental', 'build', 'examples', ''):
            for p in glob.glob(os.path.join(target, sub, d, '*%s*' % unique)):
                if os.path.isdir(p):
                    shutil.rmtree(p, ignore_errors=True)
                else:
                    try:
                        os.remove(p)
                    except OSError:
                        pass


def build_test(crate, unique, cargo_args, timeout=1500):
    """`cargo test --no-run` of the scratch copy into the shared target directory; returns (executable or None, files, log).
    `files` are the artifacts of the unique package (from cargo's JSON messages) - they are what cleanup_files removes, so a
    run leaves nothing of its own behind.  Incremental compilation is off (its caches are named by crate, not by package)."""
    import json
    env = dict(os.environ)
    env['CARGO_NET_OFFLINE'] = 'true'
    env['CARGO_TARGET_DIR'] = target_dir()
    env['CARGO_INCREMENTAL'] = '0'
    # opt-level 1 (debug assertions and overflow checks stay on): the grids run 4-5 times faster, regex compilation above all
    env['CARGO_PROFILE_TEST_OPT_LEVEL'] = '1'
    env['CARGO_PROFILE_DEV_OPT_LEVEL'] = '1'
    p = subprocess.run(['cargo', 'test', '--offline', '--no-run', '--message-format=json'] + cargo_args, cwd=crate, env=env,
                       stdout=subprocess.PIPE, stderr=subprocess.PIPE, text=True, timeout=timeout)
    files, exe, rendered = [], None, []
    for ln in p.stdout.split('\n'):
        if not ln.startswith('{'):
            continue
        try:
            m = json.loads(ln)
        except ValueError:
            continue
        if m.get('reason') == 'compiler-artifact' and unique in m.get('package_id', ''):
            # only the hashed artifacts under deps/ (and files carrying the unique name): the uplifted copies
            # target/debug/libsqlgrep.rlib / .so have one name for every copy of the crate and may be in use by a concurrent build
            files += [f for f in m.get('filenames', []) if os.sep + 'deps' + os.sep in f or unique in os.path.basename(f)]
            if m.get('executable') and m.get('profile', {}).get('test'):
                exe = m['executable']
        elif m.get('reason') == 'compiler-message' and m.get('message', {}).get('level') == 'error':
            rendered.append(m['message'].get('rendered', '')[:600] + ' ... ' + m['message'].get('rendered', '')[-900:])
    log = '\n'.join(rendered) + '\n' + p.stderr[-1500:]
    return exe, files, log


def cleanup_files(files):
    for f in files:
        for path in (f, os.path.splitext(f)[0] + '.d'):
            try:
                os.remove(path)
            except OSError:
                pass
