// follow-mode: two refreshes of an aggregate DISTINCT ... HAVING query
use sqlgrep::data_model::Tables;
use sqlgrep::execution::execution_engine::{ExecutionConfig, ExecutionEngine};
use sqlgrep::parsing;
fn main() {
    let mut tables = Tables::new();
    assert!(tables.add_tables(parsing::parse("CREATE TABLE t (line = 'A: ([a-z]+) ([0-9]*)', line[1] => k TEXT, line[2] => c INT);").unwrap()));
    let st = parsing::parse("SELECT DISTINCT k, COUNT(*) AS n FROM t GROUP BY k HAVING COUNT(*) > 0").unwrap();
    let mut e = ExecutionEngine::new(&tables, &st);
    for line in ["A: a 1", "A: b 2", "A: c 3"] {
        let out = e.execute(line.to_owned(), &ExecutionConfig::default()).unwrap();
        println!("{:?}", out.result_row.map(|r| r.data.iter().map(|x| format!("{:?}", x.columns)).collect::<Vec<_>>()));
    }
}
