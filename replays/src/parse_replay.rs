// parse_replay <unused> <query text> <expect>      expect: tree=<Display of the parse tree> | ok | error | nopanic
use std::panic::{catch_unwind, AssertUnwindSafe};
use sqlgrep::parsing;
fn main() {
    let args: Vec<String> = std::env::args().collect();
    let (text, expect) = (&args[2], &args[3]);
    std::panic::set_hook(Box::new(|_| {}));
    let r = catch_unwind(AssertUnwindSafe(|| {
        match parsing::parse_into_tree(text) {
            Ok(tree) => {
                // Display is only implemented for SELECT trees (it is the test observation channel, not user facing)
                let shown = if text.trim_start().to_lowercase().starts_with("select") { format!("{}", tree) } else { String::from("<create table>") };
                let st = parsing::parse(text).map(|_| ()).map_err(|e| { let near = e.location().extract_near(text); format!("{} near {}", e, near) });
                (Ok(shown), st)
            }
            Err(e) => { let near = e.location.extract_near(text); (Err(format!("{} near {}", e.error, near)), Err(String::new())) }
        }
    }));
    match r {
        Err(_) => { println!("REPLAY-FAIL panicked"); std::process::exit(1); }
        Ok((tree, st)) => {
            let ok = if let Some(t) = expect.strip_prefix("tree=") { tree.as_ref().map(|x| x == t).unwrap_or(false) }
                     else if expect == "ok" { tree.is_ok() && st.is_ok() }
                     else if expect == "error" { tree.is_err() || st.is_err() }
                     else { true };
            if ok { println!("REPLAY-PASS {:?} {:?}", tree, st); } else { println!("REPLAY-FAIL expected {} got {:?} {:?}", expect, tree, st); std::process::exit(1); }
        }
    }
}
