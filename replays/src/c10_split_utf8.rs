// Replay for C10 obligation follow::next::delivers-exactly-the-completed-line (None path):
// an append boundary inside a multi-byte character, polled exactly then.
// Expected (property): the line "aé" is delivered once the newline arrives.
use std::fs::{File, OpenOptions};
use std::io::{BufReader, Write};
use std::sync::mpsc;
use std::time::Duration;
use sqlgrep::helpers::FollowFileIterator;

fn main() {
    let path = std::env::temp_dir().join(format!("c10_replay_{}.log", std::process::id()));
    File::create(&path).unwrap();
    let mut w = OpenOptions::new().append(true).open(&path).unwrap();
    let reader = BufReader::new(File::open(&path).unwrap());
    let (tx, rx) = mpsc::channel();
    let (polled_tx, polled_rx) = mpsc::channel::<()>();
    let _ = polled_tx;
    // first append: 'a' and the first byte of 'é' (0xC3 0xA9)
    w.write_all(&[b'a', 0xC3]).unwrap();
    w.flush().unwrap();
    std::thread::spawn(move || {
        let mut it = FollowFileIterator::new(reader);
        let r = it.next();
        tx.send(r).unwrap();
    });
    // let the reader poll in the gap
    std::thread::sleep(Duration::from_millis(300));
    w.write_all(&[0xA9, b'\n']).unwrap();
    w.flush().unwrap();
    let got = rx.recv_timeout(Duration::from_secs(3));
    let _ = std::fs::remove_file(&path);
    let _ = polled_rx;
    match got {
        Ok(Some(s)) if s == "aé" => { println!("REPLAY-PASS delivered {:?}", s); }
        Ok(other) => { println!("REPLAY-FAIL expected Some(\"aé\"), got {:?}", other); std::process::exit(1); }
        Err(_) => { println!("REPLAY-FAIL no line delivered within 3 s (iterator still polling or lost the bytes)"); std::process::exit(1); }
    }
}
