// Replay driver through the real FileExecutor (batch mode), output captured by a Printer:
//   file_replay <create-table-text> <query-text> <expect> <file1-content> [<file2-content> ...]
//   expect:  lines=<a|b|c>  printed records joined with '|' ;  total=<n> statistics.total_lines ; both joined by '&'
//   a joined table can be given as env JOIN_FILE_CONTENT (written to the path named in the query as @JOIN@)
use std::fs::File;
use std::io::Write;
use std::sync::Arc;
use std::sync::atomic::AtomicBool;
use sqlgrep::data_model::Tables;
use sqlgrep::execution::execution_engine::ExecutionEngine;
use sqlgrep::executor::{DisplayOptions, FileExecutor, OutputFormat, Printer};
use sqlgrep::parsing;

struct Cap { lines: Vec<String> }
impl Printer for Cap { fn println(&mut self, line: &str) { self.lines.push(line.to_owned()); } }

// "\n" and "\xHH" escapes -> bytes (so that invalid UTF-8 can be passed on a command line)
fn unescape(s: &str) -> Vec<u8> {
    let b = s.as_bytes();
    let mut out = Vec::new();
    let mut i = 0;
    while i < b.len() {
        if b[i] == b'\\' && i + 1 < b.len() && b[i + 1] == b'n' { out.push(b'\n'); i += 2; }
        else if b[i] == b'\\' && i + 3 < b.len() && b[i + 1] == b'x' {
            out.push(u8::from_str_radix(std::str::from_utf8(&b[i + 2..i + 4]).unwrap(), 16).unwrap()); i += 4;
        } else { out.push(b[i]); i += 1; }
    }
    out
}

fn display_options() -> DisplayOptions {
    let mut d = DisplayOptions::default();
    match std::env::var("FORMAT").as_deref() { Ok("json") => d.output_format = OutputFormat::Json, Ok("csv") => d.output_format = OutputFormat::CSV(";".to_owned()), _ => {} }
    d
}

fn main() {
    let args: Vec<String> = std::env::args().collect();
    let (table, query, expect) = (&args[1], &args[2], &args[3]);
    let dir = std::env::temp_dir().join(format!("file_replay_{}", std::process::id()));
    std::fs::create_dir_all(&dir).unwrap();
    let mut files = Vec::new();
    for (i, content) in args[4..].iter().enumerate() {
        let p = dir.join(format!("f{}.log", i));
        File::create(&p).unwrap().write_all(&unescape(content)).unwrap();
        files.push(File::open(&p).unwrap());
    }
    let mut query = query.clone();
    if let Ok(join) = std::env::var("JOIN_FILE_CONTENT") {
        let p = dir.join("join.log");
        File::create(&p).unwrap().write_all(join.replace("\\n", "\n").as_bytes()).unwrap();
        query = query.replace("@JOIN@", p.to_str().unwrap());
    }
    let mut tables = Tables::new();
    assert!(tables.add_tables(parsing::parse(table).expect("table")));
    let statement = parsing::parse(&query).expect("query");
    let r = std::panic::catch_unwind(std::panic::AssertUnwindSafe(|| {
        let mut ex = FileExecutor::with_output_printer(Arc::new(AtomicBool::new(true)), files, display_options(), Cap { lines: Vec::new() },
                                                       ExecutionEngine::new(&tables, &statement)).unwrap();
        let res = ex.execute();
        (ex.output_printer().printer().lines.clone(), ex.statistics().total_lines, res.map_err(|e| format!("{}", e)))
    }));
    let _ = std::fs::remove_dir_all(&dir);
    match r {
        Err(_) => { println!("REPLAY-FAIL panicked"); std::process::exit(1); }
        Ok((lines, total, res)) => {
            let got = format!("lines={}&total={}", lines.join("|"), total);
            let mut ok = true;
            for part in expect.split('&') {
                if part == "error" { ok &= res.is_err(); } else { ok &= got.split('&').any(|g| g == part); }
            }
            if ok { println!("REPLAY-PASS {} result={:?}", got, res); } else { println!("REPLAY-FAIL expected {} got {} result={:?}", expect, got, res); std::process::exit(1); }
        }
    }
}
