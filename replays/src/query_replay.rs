// Generic replay driver against the real crate:
//   query_replay <create-table-text> <query-text> <expect> <line>...
// runs every line through ExecutionEngine::execute (default config; aggregate statements get a final
// aggregate_result call) under catch_unwind and compares with <expect>:
//   error            -> some line must make execute() return Err (and nothing may panic)
//   rows=<text>      -> the Debug rendering of all emitted rows' columns, joined with ';', must equal <text>
//   nopanic          -> nothing may panic
use std::panic::{catch_unwind, AssertUnwindSafe};
use sqlgrep::data_model::Tables;
use sqlgrep::execution::execution_engine::{ExecutionConfig, ExecutionEngine};
use sqlgrep::parsing;

fn main() {
    let args: Vec<String> = std::env::args().collect();
    let (table, query, expect) = (&args[1], &args[2], &args[3]);
    let lines = &args[4..];
    std::panic::set_hook(Box::new(|_| {}));
    let outcome = catch_unwind(AssertUnwindSafe(|| {
        let mut tables = Tables::new();
        let def = parsing::parse(table).map_err(|e| format!("table parse error: {}", e))?;
        if !tables.add_tables(def) { return Err("not a CREATE TABLE".to_owned()); }
        let statement = parsing::parse(query).map_err(|e| format!("query parse error: {}", e))?;
        let mut engine = ExecutionEngine::new(&tables, &statement);
        let config = engine.execution_config();
        let mut rows = Vec::new();
        let mut errors = Vec::new();
        for line in lines {
            match engine.execute(line.clone(), &config) {
                Ok(out) => {
                    if let Some(rr) = out.result_row { for row in rr.data { rows.push(format!("{:?}", row.columns)); } }
                    if out.reached_limit { rows.push("<limit>".to_owned()); break; }
                }
                Err(e) => { errors.push(format!("{}", e)); }
            }
        }
        if engine.is_aggregate() {
            match engine.execute(String::new(), &ExecutionConfig::aggregate_result()) {
                Ok(out) => { if let Some(rr) = out.result_row { for row in rr.data { rows.push(format!("{:?}", row.columns)); } } }
                Err(e) => { errors.push(format!("{}", e)); }
            }
        }
        Ok::<_, String>((rows, errors))
    }));
    match outcome {
        Err(_) => { println!("REPLAY-FAIL panicked"); std::process::exit(1); }
        Ok(Err(e)) => { println!("REPLAY-FAIL setup: {}", e); std::process::exit(1); }
        Ok(Ok((rows, errors))) => {
            let got = rows.join(";");
            let ok = if expect == "error" { !errors.is_empty() }
                     else if expect == "nopanic" { true }
                     else if let Some(t) = expect.strip_prefix("rows=") { got == t && errors.is_empty() }
                     else { false };
            if ok { println!("REPLAY-PASS rows=[{}] errors={:?}", got, errors); }
            else { println!("REPLAY-FAIL expected {} but got rows=[{}] errors={:?}", expect, got, errors); std::process::exit(1); }
        }
    }
}
