#!/bin/sh
# Long replay (about 35 minutes, 2^31+1 generated lines through stdin, release build): AVG over INTERVAL divides the
# running sum by `count as i32`.  Before fix 4678a9e the query below printed   a: 00:00:-1.000, n: 2147483649
# (the average of 2147483649 one-second intervals came out as MINUS one second); with the fix it reports
# "Execution error: Numeric overflow." instead.  Recorded outputs: c09_avg_interval_count.before.txt / .after.txt
set -e
T=$(mktemp -d)
( cd /repo && CARGO_TARGET_DIR=$T/target cargo build --release --offline >/dev/null 2>&1 )
echo "CREATE TABLE t (line = 'I: (.+)', line[1] => d INTERVAL);" > $T/def.txt
yes 'I: 0:0:1' | head -n 2147483649 | $T/target/release/sqlgrep -d $T/def.txt --stdin -c "SELECT AVG(d) AS a, COUNT(*) AS n FROM t"
rm -rf $T
