#!/bin/sh
# usage: run_case.sh <case-file>   (a case file is a shell fragment setting TABLE, QUERY, EXPECT and LINES via `set --`)
# builds /repo's library from the current working tree and runs the generic replay driver against it
set -e
HERE=$(cd "$(dirname "$0")" && pwd)
# (deps/libsqlgrep.rlib is written by /repo's own package only; the uplifted target/debug/libsqlgrep.rlib can be a scratch copy's)
( cd /repo && touch src/lib.rs && cargo build --lib --offline >/dev/null 2>&1 )
. "$1"
DRIVER=${DRIVER:-query_replay}
BIN=$(mktemp -d)/$DRIVER
rustc --edition 2018 -O "$HERE/src/$DRIVER.rs" --extern sqlgrep=/repo/target/debug/deps/libsqlgrep.rlib -L dependency=/repo/target/debug/deps -o "$BIN" 2>/dev/null
export JOIN_FILE_CONTENT FORMAT
"$BIN" "$TABLE" "$QUERY" "$EXPECT" "$@"
rc=$?
rm -rf "$(dirname "$BIN")"
exit $rc
