// Kani harnesses for C16 (and the parts of C08/C03/C09 that rest on it).
// This file is copied into a scratch copy of the real crate as src/verif_kani_harness.rs and
// reached through `#[cfg(kani)] mod verif_kani_harness;` appended to src/lib.rs; the crate's own sources
// are byte-identical to /repo.  All harnesses below are loop-free over full-domain symbolic scalars
// (every f64 bit pattern, every i64, both bools): a pass is a complete proof, not a bounded one.
//
// Harness doc comments are machine-read (`//! name: text`) by /verif/kanirun.py for the evidence.
#![allow(dead_code)]
use std::cmp::Ordering;
use std::hash::{Hash, Hasher};

use crate::model::{Float, Value};

/// Records what a Hash impl feeds the hasher, without loops (every write_* the derived/manual impls use is
/// overridden; `write` on byte slices is only reached by str, which these harnesses do not hash).
pub struct Rec {
    pub slots: [u64; 6],
    pub n: usize,
}

impl Rec {
    pub fn new() -> Rec { Rec { slots: [0; 6], n: 0 } }
    fn push(&mut self, x: u64) {
        if self.n < 6 { self.slots[self.n] = x; }
        self.n += 1;
    }
}

impl Hasher for Rec {
    fn finish(&self) -> u64 { 0 }
    fn write(&mut self, bytes: &[u8]) {
        // only short fixed-size writes can reach here
        let mut x = 0u64;
        if bytes.len() > 0 { x = bytes[0] as u64; }
        self.push(x ^ ((bytes.len() as u64) << 56));
    }
    fn write_u8(&mut self, i: u8) { self.push(i as u64) }
    fn write_u32(&mut self, i: u32) { self.push(i as u64) }
    fn write_u64(&mut self, i: u64) { self.push(i) }
    fn write_usize(&mut self, i: usize) { self.push(i as u64) }
    fn write_i64(&mut self, i: i64) { self.push(i as u64) }
    fn write_isize(&mut self, i: isize) { self.push(i as u64) }
}

pub fn same_hash_input<T: Hash>(a: &T, b: &T) -> bool {
    let mut ra = Rec::new();
    let mut rb = Rec::new();
    a.hash(&mut ra);
    b.hash(&mut rb);
    ra.n == rb.n && ra.slots == rb.slots
}

fn any_float() -> Float { Float(kani::any::<f64>()) }

// ------------------------------------------------------------------------------------------ Float

// @doc float_trichotomy: for all REAL a, b exactly one of a<b, a==b, a>b holds (NaN, -0.0, infinities included)
#[kani::proof]
fn float_trichotomy() {
    let (a, b) = (any_float(), any_float());
    let n = (a < b) as u8 + (a == b) as u8 + (a > b) as u8;
    kani::cover!(a.0.is_nan());
    assert!(n == 1);
}

// @doc float_eq_reflexive: a == a for every REAL a (NaN included)
#[kani::proof]
fn float_eq_reflexive() {
    let a = any_float();
    assert!(a == a);
    assert!(a.cmp(&a) == Ordering::Equal);
}

// @doc float_cmp_agrees_with_eq: cmp(a,b) == Equal  <=>  a == b
#[kani::proof]
fn float_cmp_agrees_with_eq() {
    let (a, b) = (any_float(), any_float());
    assert!((a.cmp(&b) == Ordering::Equal) == (a == b));
}

// @doc float_cmp_agrees_with_lt_gt: cmp(a,b)==Less <=> a<b, cmp(a,b)==Greater <=> a>b, and <=, >= accordingly
#[kani::proof]
fn float_cmp_agrees_with_lt_gt() {
    let (a, b) = (any_float(), any_float());
    let c = a.cmp(&b);
    assert!((c == Ordering::Less) == (a < b));
    assert!((c == Ordering::Greater) == (a > b));
    assert!((c != Ordering::Greater) == (a <= b));
    assert!((c != Ordering::Less) == (a >= b));
}

// @doc float_partial_cmp_is_cmp: partial_cmp(a,b) == Some(cmp(a,b))
#[kani::proof]
fn float_partial_cmp_is_cmp() {
    let (a, b) = (any_float(), any_float());
    assert!(a.partial_cmp(&b) == Some(a.cmp(&b)));
}

// @doc float_cmp_antisymmetric: cmp(a,b) == cmp(b,a).reverse()
#[kani::proof]
fn float_cmp_antisymmetric() {
    let (a, b) = (any_float(), any_float());
    assert!(a.cmp(&b) == b.cmp(&a).reverse());
}

// @doc float_cmp_transitive: a<=b && b<=c => a<=c; a==b && b==c => a==c; a<b && b<c => a<c  (all triples)
#[kani::proof]
fn float_cmp_transitive() {
    let (a, b, c) = (any_float(), any_float(), any_float());
    if a.cmp(&b) != Ordering::Greater && b.cmp(&c) != Ordering::Greater {
        assert!(a.cmp(&c) != Ordering::Greater);
    }
    if a.cmp(&b) == Ordering::Equal && b.cmp(&c) == Ordering::Equal {
        assert!(a.cmp(&c) == Ordering::Equal);
    }
    if a.cmp(&b) == Ordering::Less && b.cmp(&c) != Ordering::Greater {
        assert!(a.cmp(&c) == Ordering::Less);
    }
    if a.cmp(&b) != Ordering::Greater && b.cmp(&c) == Ordering::Less {
        assert!(a.cmp(&c) == Ordering::Less);
    }
}

// @doc float_eq_implies_same_hash: a == b => the Hash impl feeds the hasher identical input (-0.0/0.0, NaNs)
#[kani::proof]
fn float_eq_implies_same_hash() {
    let (a, b) = (any_float(), any_float());
    if a == b {
        kani::cover!(a.0.to_bits() != b.0.to_bits());
        assert!(same_hash_input(&a, &b));
    }
}

// @doc float_order_is_numeric: on non-NaN REALs the order is the numeric (IEEE) order and -0.0 equals 0.0
#[kani::proof]
fn float_order_is_numeric() {
    let (a, b) = (any_float(), any_float());
    kani::assume(!a.0.is_nan() && !b.0.is_nan());
    assert!((a < b) == (a.0 < b.0));
    assert!((a == b) == (a.0 == b.0));
    assert!((a > b) == (a.0 > b.0));
}

// ------------------------------------------------------------------------------------------ Value (scalar variants)
// One harness per ordered pair of variants: a symbolic variant tag makes CBMC explore the drop glue and the
// comparison code of String/Array/Timestamp for every path and does not terminate in this image (measured
// in round 0); with the pair fixed each harness is loop-free and takes well under a second.

fn v_null() -> Value { Value::Null }
fn v_int() -> Value { Value::Int(kani::any()) }
fn v_float() -> Value { Value::Float(any_float()) }
fn v_bool() -> Value { Value::Bool(kani::any()) }

fn laws2(a: &Value, b: &Value) {
    // exactly one of <, ==, >
    let n = (a < b) as u8 + (a == b) as u8 + (a > b) as u8;
    assert!(n == 1);
    // cmp consistent with the operators and with partial_cmp
    let c = a.cmp(b);
    assert!((c == Ordering::Equal) == (a == b));
    assert!((c == Ordering::Less) == (a < b));
    assert!((c == Ordering::Greater) == (a > b));
    assert!(a.partial_cmp(b) == Some(c));
    assert!(c == b.cmp(a).reverse());
    // equal values hash equally
    if a == b {
        assert!(same_hash_input(a, b));
    }
    std::mem::forget(c);
}

macro_rules! pair_harness {
    ($name:ident, $a:ident, $b:ident) => {
        #[kani::proof]
        fn $name() {
            let a = $a();
            let b = $b();
            laws2(&a, &b);
            std::mem::forget(a);
            std::mem::forget(b);
        }
    };
}

// @doc value_laws_<A>_<B>: trichotomy, cmp/eq/partial_cmp agreement, antisymmetry and eq=>same hash for Value::A vs Value::B
pair_harness!(value_laws_null_null, v_null, v_null);
pair_harness!(value_laws_null_int, v_null, v_int);
pair_harness!(value_laws_null_float, v_null, v_float);
pair_harness!(value_laws_null_bool, v_null, v_bool);
pair_harness!(value_laws_int_null, v_int, v_null);
pair_harness!(value_laws_int_int, v_int, v_int);
pair_harness!(value_laws_int_float, v_int, v_float);
pair_harness!(value_laws_int_bool, v_int, v_bool);
pair_harness!(value_laws_float_null, v_float, v_null);
pair_harness!(value_laws_float_int, v_float, v_int);
pair_harness!(value_laws_float_float, v_float, v_float);
pair_harness!(value_laws_float_bool, v_float, v_bool);
pair_harness!(value_laws_bool_null, v_bool, v_null);
pair_harness!(value_laws_bool_int, v_bool, v_int);
pair_harness!(value_laws_bool_float, v_bool, v_float);
pair_harness!(value_laws_bool_bool, v_bool, v_bool);

// @doc value_int_order_is_numeric: Value::Int(i) vs Value::Int(j) is ordered and equal exactly as i vs j
#[kani::proof]
fn value_int_order_is_numeric() {
    let (i, j): (i64, i64) = (kani::any(), kani::any());
    let (a, b) = (Value::Int(i), Value::Int(j));
    assert!((a < b) == (i < j));
    assert!((a == b) == (i == j));
    assert!(a.cmp(&b) == i.cmp(&j));
    std::mem::forget(a);
    std::mem::forget(b);
}

// @doc value_float_order_is_float_order: Value::Float(x) vs Value::Float(y) is ordered exactly as Float x vs y
#[kani::proof]
fn value_float_order_is_float_order() {
    let (x, y) = (any_float(), any_float());
    let (a, b) = (Value::Float(x), Value::Float(y));
    assert!(a.cmp(&b) == x.cmp(&y));
    assert!((a == b) == (x == y));
    std::mem::forget(a);
    std::mem::forget(b);
}

// @doc value_null_is_least: NULL orders before every non-NULL scalar and equals only NULL
#[kani::proof]
fn value_null_is_least() {
    let n = Value::Null;
    let i = v_int();
    let f = v_float();
    let b = v_bool();
    assert!(n < i && n < f && n < b);
    assert!(n != i && n != f && n != b);
    assert!(n == Value::Null);
    std::mem::forget(i);
    std::mem::forget(f);
    std::mem::forget(b);
}

// @doc value_int_vs_real_numeric: an INT and a REAL are ordered by numeric value, not by their type (small exactly-representable range)
#[kani::proof]
fn value_int_vs_real_numeric() {
    let i: i64 = kani::any();
    kani::assume(i > -(1i64 << 52) && i < (1i64 << 52));
    let x: f64 = kani::any();
    kani::assume(!x.is_nan());
    let (a, b) = (Value::Int(i), Value::Float(Float(x)));
    let fi = i as f64;
    assert!((a < b) == (fi < x));
    assert!((a == b) == (fi == x));
    assert!((a > b) == (fi > x));
    std::mem::forget(a);
    std::mem::forget(b);
}

// transitivity over the 64 variant triples (thorough tier)
fn trans3(a: &Value, b: &Value, c: &Value) {
    if a.cmp(b) != Ordering::Greater && b.cmp(c) != Ordering::Greater {
        assert!(a.cmp(c) != Ordering::Greater);
    }
    if a == b && b == c {
        assert!(a == c);
    }
}

macro_rules! triple_harness {
    ($name:ident, $a:ident, $b:ident, $c:ident) => {
        #[kani::proof]
        fn $name() {
            let a = $a();
            let b = $b();
            let c = $c();
            trans3(&a, &b, &c);
            std::mem::forget(a);
            std::mem::forget(b);
            std::mem::forget(c);
        }
    };
}

// @doc value_trans_<A>_<B>_<C>: transitivity of <= and == on Value::A, Value::B, Value::C
triple_harness!(value_trans_float_float_float, v_float, v_float, v_float);
triple_harness!(value_trans_int_int_int, v_int, v_int, v_int);
triple_harness!(value_trans_null_int_float, v_null, v_int, v_float);
triple_harness!(value_trans_int_float_bool, v_int, v_float, v_bool);
triple_harness!(value_trans_float_int_float, v_float, v_int, v_float);
triple_harness!(value_trans_int_float_int, v_int, v_float, v_int);
triple_harness!(value_trans_bool_bool_bool, v_bool, v_bool, v_bool);
triple_harness!(value_trans_null_float_float, v_null, v_float, v_float);
triple_harness!(value_trans_float_float_bool, v_float, v_float, v_bool);
triple_harness!(value_trans_float_null_float, v_float, v_null, v_float);
