// Bounded Kani harnesses (NOT proofs): string-heavy functions that Verus cannot take.
#![allow(dead_code)]
use crate::parsing::TokenLocation;

// @doc extract_near_no_panic: TokenLocation::extract_near never panics (bounded: one line of <= 4 ASCII chars from {a, space}, column <= 6)
#[kani::proof]
#[kani::unwind(7)]
fn extract_near_no_panic() {
    let mut bytes = [b'a'; 4];
    for i in 0..4 {
        if kani::any() { bytes[i] = b' '; }
    }
    let len: usize = kani::any();
    kani::assume(len <= 4);
    let text = std::str::from_utf8(&bytes[..len]).unwrap();
    let column: usize = kani::any();
    kani::assume(column <= 6);
    let location = TokenLocation::new(0, column);
    let near = location.extract_near(text);
    std::mem::forget(near);
}
