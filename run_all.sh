#!/bin/sh
# runs every claimed check (quick tier) in parallel groups and prints one line each
cd /verif
for p in $(python3 -c "import checks; print(' '.join(sorted(checks.CHECKS)))"); do
  ( ./run_check.py $p --tier ${1:-quick} > /tmp/run_all_$p.log 2>&1; echo "$p rc=$? $(tail -1 /tmp/run_all_$p.log)" ) &
done
wait
