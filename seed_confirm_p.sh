#!/bin/sh
# usage: seed_confirm.sh <Cxx> <variant>   - confirms a sub-agent's change in its scratch worktree /tmp/wt/<Cxx>
P=$1; V=$2; WT=/tmp/wt/$P; D=$WT/seed_out/$V
cd $WT || exit 9
export CARGO_TARGET_DIR=$WT/target
git checkout -q -- src; rm -f tests/*.rs; mkdir -p tests; cp $D/demo.rs tests/seed_demo.rs
cargo test --offline --test seed_demo > /tmp/sc_base_$P.log 2>&1; base=$?
git apply $D/patch.diff || { echo "PATCH-FAILS-TO-APPLY"; exit 9; }
cargo test --offline --lib > /tmp/sc_suite_$P.log 2>&1; suite=$?
cargo test --offline --test seed_demo > /tmp/sc_demo_$P.log 2>&1; demo=$?
git checkout -q -- src; rm -f tests/seed_demo.rs
echo "demo-on-unchanged=$base (want 0)  suite-with-change=$suite (want 0: $(grep -E '^test result' /tmp/sc_suite_$P.log | head -1))  demo-with-change=$demo (want !=0)"
