#!/usr/bin/env python3
import json, sys, glob
sys.path.insert(0,'/opt/veriftools/pyvenv/lib/python3.11/site-packages')
try:
    import jsonschema
except ImportError:
    import subprocess
    sys.exit(subprocess.call(['python3-vt', __file__]))
m=json.load(open('/verif/MANIFEST.json'))
jsonschema.validate(m, json.load(open('/root/.vp/MANIFEST.schema.json')))
print('manifest ok: %d checks'%len(m['checks']))
bad = False
for f in sorted(glob.glob('/verif/evidence/*.json')):
    e=json.load(open(f))
    jsonschema.validate(e, json.load(open('/root/.vp/EVIDENCE.schema.json')))
    lvl = e.get('level')
    if lvl == 'proof' and e['coverage'].get('obligations') != e['coverage'].get('discharged'):
        print(f, 'INVALID for level proof: discharged != obligations', e['coverage'].get('obligations'), e['coverage'].get('discharged')); bad = True
    print(f,'ok',e['coverage'].get('obligations'),e['coverage'].get('discharged'))

sys.exit(1 if bad else 0)
