#!/usr/bin/env python3
"""setup_cmd: nothing to build (the framework is Python + templates); verify the tools are there."""
import shutil, subprocess, sys
ok = True
for tool in ('verus', 'cargo', 'rsync'):
    if not shutil.which(tool):
        print('missing tool: ' + tool); ok = False
r = subprocess.run(['cargo', 'kani', '--version'], stdout=subprocess.PIPE, stderr=subprocess.STDOUT, text=True)
print(r.stdout.strip())
if r.returncode != 0:
    ok = False
r = subprocess.run(['verus', '--version'], stdout=subprocess.PIPE, stderr=subprocess.STDOUT, text=True)
print(r.stdout.strip().split('\n')[1] if r.returncode == 0 else r.stdout)
sys.exit(0 if ok else 1)
