// Bounded stand-in for C17 (printed records faithfully carry the result rows in every output format).
#![allow(dead_code, unused_imports)]
// Oracle (from the statement): every result row is printed exactly once, as one record, in result order.  JSON: each record
// is a valid JSON object whose keys are the column names in order and whose values recover the row exactly (INT and finite
// REAL as numbers without loss, TEXT with any characters, BOOLEAN, NULL as null, arrays as arrays).  CSV: one header line
// with the column names precedes the first record, every record has one field per column.  Text: `name: value` pairs in
// column order, a lone `input` column prints just the line (text values free of delimiter, quote and line-break characters).
// Grid: OutputPrinter::print driven directly with result tables built from 30 values (64-bit extremes, REAL edge values,
// TEXT with quotes / delimiters / control / non-ASCII characters, nested and long arrays, NULLs) in 1..4 columns and 0..3
// rows per table, several tables per printer (an empty table first), the three formats (CSV with the delimiters ; , tab and ||; JSON also with
// column names that hold quotes, backslashes, control and non-ASCII characters), interactive and single-result mode;
// plus the same values through a real query.
// Also: intervals from 1 second to 1000 hours in the three formats (hours are not wrapped at a day).
include!("verif_grid_common.rs");
include!("verif_grid_qcommon.rs");
use serde_json::{json, Value as J};
use sqlgrep::data_model::Row;
use sqlgrep::execution::ResultRow;
use sqlgrep::model::{Float, Value, ValueType};

fn values() -> Vec<(Value, J, Option<&'static str>)> {
    // (value, its JSON, its text rendering when the statement fixes it)
    let mut v: Vec<(Value, J, Option<&'static str>)> = vec![
        (Value::Null, J::Null, Some("NULL")), (Value::Int(0), json!(0), Some("0")), (Value::Int(-1), json!(-1), Some("-1")), (Value::Int(i64::MAX), json!(i64::MAX), Some("9223372036854775807")),
        (Value::Int(i64::MIN), json!(i64::MIN), Some("-9223372036854775808")), (Value::Int(9007199254740993), json!(9007199254740993i64), Some("9007199254740993")),
        (Value::Bool(true), json!(true), Some("true")), (Value::Bool(false), json!(false), Some("false")),
        (Value::Float(Float(1.5)), json!(1.5), None), (Value::Float(Float(-0.0)), json!(-0.0), None), (Value::Float(Float(1e308)), json!(1e308), None), (Value::Float(Float(5e-324)), json!(5e-324), None),
        (Value::Float(Float(0.1)), json!(0.1), None), (Value::Float(Float(123456789.125)), json!(123456789.125), None),
        (Value::String("plain".to_owned()), json!("plain"), Some("'plain'")), (Value::String(String::new()), json!(""), Some("''")),
    ];
    for s in ["it's", "say \"hi\"", "a;b,c", "tab\there", "line\nbreak", "back\\slash", "naïve – ünï 日本 \u{1F600}", "\u{0}\u{1}\u{7f}", "{\"json\": [1]}", " lead and trail ", "NULL", "1", "true"] {
        v.push((Value::String(s.to_owned()), json!(s), None));
    }
    v.push((Value::Array(ValueType::Int, vec![Value::Int(1), Value::Null, Value::Int(i64::MIN)]), json!([1, null, i64::MIN]), None));
    v.push((Value::Array(ValueType::String, vec![Value::String("a\"b".to_owned()), Value::String(",".to_owned())]), json!(["a\"b", ","]), None));
    v.push((Value::Array(ValueType::Int, (0..300).map(Value::Int).collect()), J::Array((0..300).map(|i| json!(i)).collect()), None));
    v.push((Value::Array(ValueType::Int, vec![]), json!([]), None));
    v
}

fn json_same(a: &J, b: &J) -> bool {
    match (a, b) {
        (J::Number(x), J::Number(y)) => if x.is_i64() || y.is_i64() || x.is_u64() || y.is_u64() { x.as_i64() == y.as_i64() && x.is_f64() == y.is_f64() } else { x.as_f64().map(f64::to_bits) == y.as_f64().map(f64::to_bits) || x.as_f64() == y.as_f64() },
        (J::Array(x), J::Array(y)) => x.len() == y.len() && x.iter().zip(y.iter()).all(|(p, q)| json_same(p, q)),
        _ => a == b,
    }
}

fn print_tables(format: OutputFormat, single: bool, names: &[String], tables: &[Vec<Vec<Value>>]) -> Vec<String> {
    let mut printer = OutputPrinter::with_printer(Captured { lines: Vec::new() }, format);
    for t in tables {
        let rr = ResultRow { data: t.iter().map(|r| Row::new(r.clone())).collect(), columns: names.to_vec() };
        printer.print(&rr, single);
    }
    printer.printer().lines.clone()
}

#[test]
fn verif_grid() {
    let mut g = Grid::new("c17");
    let vals = values();
    let n = vals.len();
    // tables: widths 1..4, rows 0..3, values rotating through the pool
    let mut shapes: Vec<(usize, Vec<usize>)> = Vec::new();   // (width, rows per table)
    for w in 1..=4 { for rows in [vec![1], vec![2], vec![3], vec![0, 2], vec![0, 0, 1, 3], vec![1, 0, 2], vec![2, 2]] { shapes.push((w, rows)); } }
    for (si, (w, rows)) in shapes.iter().enumerate() { for start in 0..n {
        let names: Vec<String> = (0..*w).map(|c| ["alpha", "b", "input", "d_4"][c].to_owned()).collect();
        let mut next = start + si;
        let tables: Vec<Vec<Vec<(Value, J, Option<&'static str>)>>> = rows.iter().map(|r| (0..*r).map(|_| (0..*w).map(|_| { next += 1; vals[next % n].clone() }).collect()).collect()).collect();
        let value_tables: Vec<Vec<Vec<Value>>> = tables.iter().map(|t| t.iter().map(|r| r.iter().map(|c| c.0.clone()).collect()).collect()).collect();
        let all_rows: Vec<Vec<(Value, J, Option<&'static str>)>> = tables.iter().flat_map(|t| t.iter().cloned()).collect();
        // ---- JSON
        // (column names are text too: in JSON any character of a name is escaped like any other text)
        let json_names: Vec<String> = (0..*w).map(|c| [["alpha", "b", "input", "d_4"], ["a \"quoted\" name", "back\\slash", "tab\there", "uni\u{e9}\u{1f600}"], ["new\nline", "p0", "COUNT(*)", "a.b"]][start % 3][c].to_owned()).collect();
        for single in [true, false] {
            let (names2, vt, rows2) = (json_names.clone(), value_tables.clone(), all_rows.clone());
            let multi: Vec<bool> = tables.iter().map(|t| t.len() > 1).collect();
            g.case(&format!("json-s{}-v{}-{}", si, start, single), move || {
                let printed = print_tables(OutputFormat::Json, single, &names2, &vt);
                let records: Vec<&String> = printed.iter().filter(|l| !l.is_empty()).collect();
                if records.len() != rows2.len() { return Err(format!("{} result rows, {} JSON records printed: {:?}", rows2.len(), records.len(), printed)); }
                let blanks = printed.iter().filter(|l| l.is_empty()).count();
                let want_blanks = if single { 0 } else { multi.iter().filter(|m| **m).count() };
                if blanks != want_blanks { return Err(format!("{} blank separator lines, {} expected (after each multi-row table unless single-result): {:?}", blanks, want_blanks, printed)); }
                for (rec, row) in records.iter().zip(rows2.iter()) {
                    let parsed: J = serde_json::from_str(rec).map_err(|e| format!("record {:?} is not valid JSON: {}", rec, e))?;
                    let obj = parsed.as_object().ok_or(format!("record {:?} is not an object", rec))?;
                    let keys: Vec<&String> = obj.keys().collect();
                    if keys != names2.iter().collect::<Vec<_>>() { return Err(format!("record {:?} has the keys {:?}, the columns are {:?}", rec, keys, names2)); }
                    for (c, name) in names2.iter().enumerate() {
                        if !json_same(&obj[name], &row[c].1) { return Err(format!("record {:?}: column {} holds {}, the row value {:?} is {}", rec, name, obj[name], row[c].0, row[c].1)); }
                    }
                }
                Ok(())
            });
        }
        // ---- CSV and text: only rows whose text values are free of delimiter, quote and line-break characters
        let clean = all_rows.iter().all(|r| r.iter().all(|c| match &c.0 { Value::String(s) => !s.contains(|ch: char| ch == ';' || ch == ',' || ch == '\t' || ch == '|' || ch == '"' || ch == '\'' || ch == '\n' || ch == '\r' || ch == ':'), Value::Array(..) => false, _ => true }));
        if clean {
            let (names2, vt, nrows) = (names.clone(), value_tables.clone(), all_rows.len());
            let delimiter = [";", ",", "\t", "||"][(start + si) % 4];
            g.case(&format!("csv-s{}-v{}", si, start), move || {
                let printed = print_tables(OutputFormat::CSV(delimiter.to_owned()), true, &names2, &vt);
                if nrows == 0 { return if printed.is_empty() || printed == vec![names2.join(delimiter)] { Ok(()) } else { Err(format!("no rows, printed {:?}", printed)) }; }
                if printed.len() != nrows + 1 { return Err(format!("{} rows: one header and {} records expected, printed {:?}", nrows, nrows, printed)); }
                if printed[0] != names2.join(delimiter) { return Err(format!("the first printed line is {:?}; one header line with the column names {:?} precedes the first record", printed[0], names2)); }
                for rec in &printed[1..] { if rec.split(delimiter).count() != names2.len() { return Err(format!("record {:?} does not have one field per column ({})", rec, names2.len())); } }
                Ok(())
            });
            let (names2, vt, rows2) = (names.clone(), value_tables.clone(), all_rows.clone());
            g.case(&format!("text-s{}-v{}", si, start), move || {
                let printed = print_tables(OutputFormat::Text, true, &names2, &vt);
                if printed.len() != rows2.len() { return Err(format!("{} rows, {} text records: {:?}", rows2.len(), printed.len(), printed)); }
                for (rec, row) in printed.iter().zip(rows2.iter()) {
                    if names2.len() == 1 && names2[0] == "input" { continue; }
                    let parts: Vec<&str> = rec.split(", ").collect();
                    if parts.len() != names2.len() { return Err(format!("text record {:?} does not list {} `name: value` pairs", rec, names2.len())); }
                    for (c, part) in parts.iter().enumerate() {
                        if !part.starts_with(&format!("{}: ", names2[c])) { return Err(format!("text record {:?}: pair {} is {:?}, the column is {}", rec, c, part, names2[c])); }
                        if let Some(t) = row[c].2 { if *part != format!("{}: {}", names2[c], t) { return Err(format!("text record {:?}: pair {} is {:?}, the value is {}", rec, c, part, t)); } }
                    }
                }
                Ok(())
            });
        }
    } }
    // intervals and timestamps are printed as their text form: hours:minutes:seconds.milliseconds with the hours not wrapped at a day
    for (i, (h, m, sec, ms)) in [(0i64, 0i64, 1i64, 0i64), (1, 2, 3, 4), (23, 59, 59, 999), (24, 0, 0, 0), (49, 30, 15, 0), (1000, 0, 1, 500)].iter().enumerate() {
        let total_ms = ((h * 60 + m) * 60 + sec) * 1000 + ms;
        let text = format!("{:02}:{:02}:{:02}.{:03}", h, m, sec, ms);
        g.case(&format!("interval-text-{}", i), move || {
            let v = Value::Interval(chrono::Duration::milliseconds(total_ms));
            let json = print_tables(OutputFormat::Json, true, &["d".to_owned()], &[vec![vec![v.clone()]]]);
            let txt = print_tables(OutputFormat::Text, true, &["d".to_owned()], &[vec![vec![v.clone()]]]);
            let csv = print_tables(OutputFormat::CSV(";".to_owned()), true, &["d".to_owned()], &[vec![vec![v]]]);
            if json == vec![format!("{{\"d\":\"{}\"}}", text)] && txt == vec![format!("d: {}", text)] && csv == vec!["d".to_owned(), text.clone()] { Ok(()) }
            else { Err(format!("an interval of {} ms ({}) printed JSON {:?}, text {:?}, CSV {:?}", total_ms, text, json, txt, csv)) }
        });
    }
    // a lone `input` column prints just the line
    g.case("lone-input", || {
        let printed = print_tables(OutputFormat::Text, true, &["input".to_owned()], &[vec![vec![Value::String("GET /index.html 200".to_owned())]]]);
        if printed == vec!["'GET /index.html 200'".to_owned()] || printed == vec!["GET /index.html 200".to_owned()] { Ok(()) } else { Err(format!("a lone input column printed {:?}", printed)) }
    });
    // timestamps are printed as their text form, also before 1970 and with a fraction of a second
    {
        let tdef = "CREATE TABLE t(line = '^ts=(\\\\d+)-(\\\\d+)-(\\\\d+) (\\\\d+):(\\\\d+):(\\\\d+)\\\\.(\\\\d+)$', line[1], line[2], line[3], line[4], line[5], line[6], line[7] => ts TIMESTAMP);";
        for (i, text) in ["1960-02-03 04:05:06.250", "1969-12-31 23:59:59.999", "1970-01-01 00:00:00.001", "1900-01-01 00:00:00.500", "2021-03-09 14:25:36.750", "1969-12-31 23:59:59.000"].iter().enumerate() {
            g.case(&format!("timestamp-text-{}", i), move || {
                let line = format!("ts={}", text);
                let json = run_opts(tdef, "SELECT ts FROM t", &[join_lines(&[&line])], json_opts());
                let txt = run_opts(tdef, "SELECT ts FROM t", &[join_lines(&[&line])], DisplayOptions { output_format: OutputFormat::Text, single_result: true, print_result: true });
                let csv = run_opts(tdef, "SELECT ts FROM t", &[join_lines(&[&line])], DisplayOptions { output_format: OutputFormat::CSV(";".to_owned()), single_result: true, print_result: true });
                let ok = json.lines() == Some(&vec![format!("{{\"ts\":\"{}\"}}", text)]) && txt.lines() == Some(&vec![format!("ts: {}", text)]) && csv.lines() == Some(&vec!["ts".to_owned(), text.to_string()]);
                if ok { Ok(()) } else { Err(format!("the timestamp {} printed JSON {:?}, text {:?}, CSV {:?}", text, json, txt, csv)) }
            });
        }
    }
    // through a real query: one record per result row, in result order, in every format
    let def = "CREATE TABLE t(line = '^i=(-?[0-9]*) r=(\\\\S*) s=(.*)$', line[1] => i INT, line[2] => r REAL, line[3] => s TEXT);";
    let lines = ["i=1 r=1.5 s=plain", "i=-9223372036854775808 r=1e308 s=", "i= r= s=x y", "i=9007199254740993 r=0.1 s=naïve 日本", "i=5 r=-0.0 s=last"];
    for (fi, format) in [OutputFormat::Json, OutputFormat::CSV(";".to_owned()), OutputFormat::Text].into_iter().enumerate() {
        for (qi, (query, rows_due)) in [("SELECT i, r, s FROM t", 5usize), ("SELECT * FROM t WHERE i IS NOT NULL", 4), ("SELECT s, i FROM t LIMIT 3", 3), ("SELECT i, COUNT(*) AS n FROM t GROUP BY i", 5),
                                         ("SELECT s FROM t LIMIT 1", 1), ("SELECT i, s FROM t LIMIT 5", 5), ("SELECT s FROM t WHERE i IS NULL LIMIT 1", 1), ("SELECT i FROM t LIMIT 0", 0), ("SELECT DISTINCT i IS NULL AS z FROM t LIMIT 2", 2)].iter().enumerate() {
            let format = format.clone();
            g.case(&format!("query-f{}-q{}", fi, qi), move || {
                let reference = match run_opts(def, query, &[join_lines(&lines)], json_opts()) { Outcome::Lines(l, _) => l, other => return Err(format!("{:?}", other)) };
                match run_opts(def, query, &[join_lines(&lines)], DisplayOptions { output_format: format.clone(), single_result: true, print_result: true }) {
                    Outcome::Lines(l, _) => { let records = if matches!(format, OutputFormat::CSV(_)) { l.len().saturating_sub(1) } else { l.len() };
                        if reference.len() != *rows_due { return Err(format!("{} over {:?} has {} result rows, JSON format printed {}: {:?}", query, lines, rows_due, reference.len(), reference)); }
                        if matches!(format, OutputFormat::CSV(_)) && *rows_due > 0 && l.len() != rows_due + 1 { return Err(format!("{} in CSV printed {:?}: one header line and {} records are due", query, l, rows_due)); }
                        if records == reference.len() { Ok(()) } else { Err(format!("{} in format {:?} printed {} records for {} result rows: {:?}", query, format, records, reference.len(), l)) } }
                    other => Err(format!("{:?}", other)),
                }
            });
        }
    }
    g.done();
}
