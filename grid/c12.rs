// Bounded stand-in for C12 (every line of every input file reaches the query exactly once, in order).
#![allow(dead_code, unused_imports)]
// Oracle from the property statement: the lines of a file are its pieces between line feeds (a CR before the LF belongs
// to the line end, a final piece without LF is a line, an empty final piece is not); files in the given order.
// Grid: every file of up to 2 lines over the pool below with LF / CRLF / no final terminator (109 contents), all pairs of 21
// representative contents, all triples of 6; the command-line binary over files given in unsorted order and twice; every 4th content through a pipe (an input without a size); 14 lines with a byte order mark / blanks / tabs / CR / Unicode separators at their ends as first, second and both files; statements: SELECT input, SELECT COUNT(*), a join whose joined file is the grid file.
include!("verif_grid_common.rs");

const DEF: &str = "CREATE TABLE t(line = '(.*)', line[1] => x TEXT);";

fn oracle_lines(content: &[u8]) -> Vec<Vec<u8>> {
    let mut out = Vec::new();
    let mut pieces = content.split(|c| *c == b'\n').map(|p| p.to_vec()).collect::<Vec<_>>();
    let last = pieces.pop().unwrap();
    for mut p in pieces {
        if p.last() == Some(&b'\r') { p.pop(); }
        out.push(p);
    }
    if !last.is_empty() { out.push(last); }
    out
}

fn contents_up_to_two_lines() -> Vec<Vec<u8>> {
    let pool: [&str; 4] = ["v=1", "w=22", "zz z", ""];
    let mut out = vec![Vec::new()];
    for a in pool { for end in ["\n", "\r\n", ""] { if a.is_empty() && end.is_empty() { continue; } out.push(b(&format!("{}{}", a, end))); } }
    for a in pool { for e1 in ["\n", "\r\n"] { for c in pool { for e2 in ["\n", "\r\n", ""] {
        if c.is_empty() && e2.is_empty() { continue; }
        out.push(b(&format!("{}{}{}{}", a, e1, c, e2)));
    } } } }
    out
}

fn check_select(files: &[Vec<u8>]) -> Result<(), String> {
    let expected = files.iter().flat_map(|f| oracle_lines(f)).map(|l| format!("'{}'", String::from_utf8(l).unwrap())).collect::<Vec<_>>();   // text format shows a TEXT value in quotes
    match run(DEF, "SELECT input FROM t", files) {
        Outcome::Lines(lines, total) => {
            if lines != expected { return Err(format!("files {:?}: SELECT input printed {:?}, the lines are {:?}", files.iter().map(|f| show(f)).collect::<Vec<_>>(), lines.iter().map(|l| short(l)).collect::<Vec<_>>(), expected.iter().map(|l| short(l)).collect::<Vec<_>>())); }
            if total != expected.len() as u64 { return Err(format!("files {:?}: {} lines were counted, the files hold {}", files.iter().map(|f| show(f)).collect::<Vec<_>>(), total, expected.len())); }
            Ok(())
        }
        other => Err(format!("files {:?}: SELECT input gave {:?}", files.iter().map(|f| show(f)).collect::<Vec<_>>(), other)),
    }
}

fn check_count(files: &[Vec<u8>]) -> Result<(), String> {
    let n = files.iter().map(|f| oracle_lines(f).len()).sum::<usize>();
    if n == 0 { return Ok(()); }
    match run(DEF, "SELECT COUNT(*) AS n FROM t", files) {
        Outcome::Lines(lines, _) => if lines == vec![format!("n: {}", n)] { Ok(()) } else { Err(format!("files {:?}: COUNT(*) printed {:?}, the files hold {} lines", files.iter().map(|f| show(f)).collect::<Vec<_>>(), lines, n)) },
        other => Err(format!("files {:?}: COUNT(*) gave {:?}", files.iter().map(|f| show(f)).collect::<Vec<_>>(), other)),
    }
}

#[test]
fn verif_grid() {
    let mut g = Grid::new("c12");
    let singles = contents_up_to_two_lines();
    for (i, c) in singles.iter().enumerate() {
        let f = vec![c.clone()];
        let f2 = f.clone();
        g.case(&format!("one-file-{}", i), move || check_select(&f));
        g.case(&format!("one-file-count-{}", i), move || check_count(&f2));
    }
    let reps = singles.iter().cloned().step_by(5).take(21).collect::<Vec<_>>();
    for (i, a) in reps.iter().enumerate() { for (j, c) in reps.iter().enumerate() {
        let f = vec![a.clone(), c.clone()];
        let f2 = f.clone();
        g.case(&format!("two-files-{}-{}", i, j), move || check_select(&f));
        g.case(&format!("two-files-count-{}-{}", i, j), move || check_count(&f2));
    } }
    let reps3 = vec![b(""), b("v=1\n"), b("v=1"), b("w=22\r\nzz z"), b("\n"), b("v=1\n\nw=22\n")];
    for (i, a) in reps3.iter().enumerate() { for (j, c) in reps3.iter().enumerate() { for (k, d) in reps3.iter().enumerate() {
        let f = vec![a.clone(), c.clone(), d.clone()];
        g.case(&format!("three-files-{}-{}-{}", i, j, k), move || check_select(&f));
    } } }
    // lines whose ends or starts are easily "tidied": a byte order mark, blanks and tabs at either end, blank-only lines, a second CR,
    // Unicode line separators and form feeds inside a line - each reaches the query as it stands
    let edges = ["\u{feff}v=1", "v=1  ", "\tv=1\t", "  ", " ", "v=1\r", "\u{feff}", "\u{a0}v=1\u{a0}", "v=1\u{2028}w=2", "v=1\u{c}", "v=1\u{b}x", "v=1\u{85}", "\u{feff}\u{feff}v=1", " \u{feff}v=1"];
    for (i, e) in edges.iter().enumerate() {
        for (j, end) in ["\n", "\r\n", ""].iter().enumerate() {
            let one = vec![b(&format!("{}{}", e, end))];
            let two = vec![b("v=1\n"), b(&format!("{}{}", e, end))];
            let twice = vec![b(&format!("{}\n", e)), b(&format!("{}{}w=22\n", e, if end.is_empty() { "\n" } else { end }))];
            g.case(&format!("edge-{}-{}-one", i, j), move || check_select(&one));
            g.case(&format!("edge-{}-{}-second-file", i, j), move || check_select(&two));
            g.case(&format!("edge-{}-{}-both-files", i, j), move || check_select(&twice));
        }
    }
    // long lines and many lines
    for (i, n) in [1usize, 4095, 4096, 4097, 8192, 8193, 20000, 65536, 1048575, 1048576, 1048577, 3000000].iter().enumerate() {
        let long = "y".repeat(*n);
        let f = vec![b(&format!("{}\nv=1\n{}", long, long))];
        g.case(&format!("long-line-{}", i), move || check_select(&f));
    }
    {
        let many = (0..3000).map(|i| format!("v={}\n", i)).collect::<String>();
        let f = vec![b(&many), b(&many)];
        g.case("many-lines", move || check_select(&f));
    }
    // a line that is not valid UTF-8 must not make later lines disappear silently: error, or the later lines are there
    for (i, bad) in [vec![0xffu8], vec![b'a', 0xc3], vec![0xe2, 0x82]].iter().enumerate() {
        let mut content = b("v=1\n");
        content.extend_from_slice(bad);
        content.extend_from_slice(b"\nv=2\nv=3\n");
        let f = vec![content, b("v=4\n")];
        g.case(&format!("invalid-utf8-{}", i), move || match run(DEF, "SELECT input FROM t", &f) {
            Outcome::Error(_) => Ok(()),
            Outcome::Lines(lines, _) => if lines.iter().any(|l| l == "'v=2'") && lines.iter().any(|l| l == "'v=3'") && lines.iter().any(|l| l == "'v=4'") { Ok(()) }
                else { Err(format!("lines after an invalid UTF-8 line were dropped without an error: printed {:?}", lines)) },
            other => Err(format!("{:?}", other)),
        });
    }
    // ... in the joined file too: an error, or the later lines still join
    for (i, bad) in [vec![0xffu8], vec![b'x', 0xc3]].iter().enumerate() {
        let mut joined = b("v=1\n");
        joined.extend_from_slice(bad);
        joined.extend_from_slice(b"\nv=2\nv=3\n");
        g.case(&format!("joined-file-invalid-utf8-{}", i), move || {
            let path = write_temp("joined", &joined);
            let def = "CREATE TABLE t(line = '(.*)', line[1] => x TEXT); CREATE TABLE u(line = '(.*)', line[1] => y TEXT);";
            let r = run(def, &format!("SELECT x FROM t INNER JOIN u::'{}' ON t.x = u.y", path.display()), &[b("v=1\nv=2\nv=3\n")]);
            let _ = std::fs::remove_file(&path);
            match r {
                Outcome::Error(_) => Ok(()),
                Outcome::Lines(lines, _) => { let lines: Vec<String> = lines.into_iter().filter(|l| !l.is_empty()).collect();
                    if lines == vec!["x: 'v=1'".to_owned(), "x: 'v=2'".to_owned(), "x: 'v=3'".to_owned()] { Ok(()) }
                    else { Err(format!("the joined file has a line that is not valid UTF-8 before `v=2` and `v=3`: no error was reported and the join printed {:?}", lines)) } }
                other => Err(format!("{:?}", other)),
            }
        });
    }
    // the joined file is read the same way: every line once
    for (i, c) in reps.iter().enumerate() {
        let joined = c.clone();
        g.case(&format!("joined-file-{}", i), move || {
            let path = write_temp("joined", &joined);
            let keys = oracle_lines(&joined).into_iter().map(|l| String::from_utf8(l).unwrap()).collect::<Vec<_>>();
            let main = b("v=1\nw=22\nzz z\n\nq\n");
            let def = "CREATE TABLE t(line = '(.*)', line[1] => x TEXT); CREATE TABLE u(line = '(.*)', line[1] => y TEXT);";
            let query = format!("SELECT x, y FROM t INNER JOIN u::'{}' ON t.x = u.y", path.display());
            let mut expected = Vec::new();
            for m in ["v=1", "w=22", "zz z", "", "q"] { for k in &keys { if k == m { expected.push(format!("x: '{}', y: '{}'", m, k)); } } }
            let r = run(def, &query, &[main]);
            let _ = std::fs::remove_file(&path);
            match r {
                // (a line with several partners prints its rows followed by one empty separator line)
                Outcome::Lines(lines, _) => { let lines = lines.into_iter().filter(|l| !l.is_empty()).collect::<Vec<_>>();
                    if lines == expected { Ok(()) } else { Err(format!("joined file {}: printed {:?}, expected {:?}", show(&joined), lines, expected)) } },
                other => Err(format!("joined file {}: {:?}", show(&joined), other)),
            }
        });
    }
    // inputs that are not regular files: a pipe (what --stdin is) reports no size; its lines are read like those of a file
    for (i, c) in singles.iter().enumerate().filter(|(i, _)| i % 4 == 0) {
        let c1 = c.clone();
        g.case(&format!("pipe-{}", i), move || {
            let expected = oracle_lines(&c1).into_iter().map(|l| format!("'{}'", String::from_utf8(l).unwrap())).collect::<Vec<_>>();
            let c2 = c1.clone();
            match run_handles(DEF, "SELECT input FROM t", move || vec![pipe_with(&c2)], Default::default()) {
                Outcome::Lines(lines, total) => if lines == expected && total == expected.len() as u64 { Ok(()) } else { Err(format!("a pipe holding {:?}: SELECT input printed {:?} ({} lines counted), the lines are {:?}", show(&c1), lines, total, expected)) },
                other => Err(format!("a pipe holding {:?}: {:?}", show(&c1), other)),
            }
        });
    }
    g.case("file-pipe-file", || {
        let (a, c) = (write_temp("in", b"a\nb\n"), write_temp("in", b"f\n"));
        let (a2, c2) = (a.clone(), c.clone());
        let r = run_handles(DEF, "SELECT COUNT(*) AS n FROM t", move || vec![std::fs::File::open(&a2).unwrap(), pipe_with(b"c\nd\ne"), std::fs::File::open(&c2).unwrap()], Default::default());
        let _ = (std::fs::remove_file(a), std::fs::remove_file(c));
        match r { Outcome::Lines(lines, 6) if lines == vec!["n: 6".to_owned()] => Ok(()), other => Err(format!("a file of 2 lines, a pipe of 3 and a file of 1: COUNT(*) gave {:?}", other)) }
    });
    // the command line: the binary reads the files it is given, in the order given, a file named twice is read twice
    g.case("command-line-file-order", || {
        let exe = env!("CARGO_BIN_EXE_VERIF_SCRATCH_PACKAGE");
        let definition = write_temp("tables", DEF.as_bytes());
        let (a, c) = (write_temp("b_second", b"a1\na2\n"), write_temp("a_first", b"c1\n"));   // (names chosen so that the given order is not the sorted one)
        let mut result = Ok(());
        for (files, want) in [(vec![&a, &c], vec!["a1", "a2", "c1"]), (vec![&c, &a], vec!["c1", "a1", "a2"]), (vec![&a, &c, &a], vec!["a1", "a2", "c1", "a1", "a2"]), (vec![&c, &c], vec!["c1", "c1"])] {
            let out = std::process::Command::new(exe).arg("-d").arg(&definition).arg("-c").arg("SELECT input FROM t").arg("--format").arg("json").args(files.iter().map(|p| p.as_os_str())).output();
            match out {
                Ok(o) => { let text = String::from_utf8_lossy(&o.stdout).into_owned();
                    let got: Vec<String> = text.lines().filter(|l| !l.is_empty()).map(|l| l.to_owned()).collect();
                    let expected: Vec<String> = want.iter().map(|w| format!("{{\"input\":\"{}\"}}", w)).collect();
                    if got != expected { result = Err(format!("sqlgrep -c 'SELECT input FROM t' over the files {:?} (holding a1 a2 / c1) printed {:?}; the lines of the files in the given order are {:?} (stderr: {})", files, got, expected, String::from_utf8_lossy(&o.stderr))); break; } }
                Err(e) => { result = Err(format!("the binary {} could not be run: {}", exe, e)); break; }
            }
        }
        for p in [&definition, &a, &c] { let _ = std::fs::remove_file(p); }
        result
    });
    g.done();
}
