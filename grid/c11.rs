// Bounded stand-in for C11 (incremental results equal a batch run over the same prefix).
#![allow(dead_code, unused_imports)]
// Oracle (from the statement): lines are fed one at a time to one engine, exactly as FollowFileExecutor does
// (ExecutionEngine::execute(line, &ExecutionConfig::default()), the returned table printed); after the k-th line the shown
// table of an aggregate query equals the batch output over the first k lines (when the k-th line shows nothing, the table
// last shown is what stays on the screen), and the rows a non-aggregate query emits for the k-th line are what the batch output
// over k lines adds to the batch output over k-1 lines.  Grid: every sequence of up to 4 lines over a 7-line pool (one
// non-admitted) x 7 aggregate statements (HAVING that a group can stop satisfying, DISTINCT, PERCENTILE) and 6 plain / DISTINCT statements, every prefix k.
include!("verif_grid_common.rs");
include!("verif_grid_qcommon.rs");
use sqlgrep::execution::execution_engine::ExecutionConfig;
use sqlgrep::executor::OutputPrinter;

/// what follow mode prints for each fed line: (records, was a table shown)
fn incremental(definition: &str, query: &str, lines: &[&str]) -> Result<Vec<Option<Vec<String>>>, String> {
    let tables = tables(definition)?;
    let statement = parsing::parse(query).map_err(|e| format!("{}", e))?;
    let mut engine = ExecutionEngine::new(&tables, &statement);
    let mut shown = Vec::new();
    for line in lines {
        let output = engine.execute(line.to_string(), &ExecutionConfig::default()).map_err(|e| format!("error at line {:?}: {}", line, e))?;
        match output.result_row {
            Some(row) => {
                let mut printer = OutputPrinter::with_printer(Captured { lines: Vec::new() }, OutputFormat::Json);
                printer.print(&row, true);
                shown.push(Some(printer.printer().lines.clone()));
            }
            None => shown.push(None),
        }
    }
    Ok(shown)
}

fn check(st: &str, aggregate: bool, input: &[&str]) -> Result<(), String> {
    let inc = match incremental(T, st, input) { Ok(x) => x, Err(e) => {
        // (no statement of this grid has an error on these lines)
        return Err(format!("{} fed line by line over {:?} fails: {}; the batch run gives {:?}", st, input, e, q(T, st, input)));
    } };
    let mut previous: Vec<String> = Vec::new();
    let mut displayed: Vec<String> = Vec::new();
    for k in 1..=input.len() {
        let batch = match q(T, st, &input[..k]) { Outcome::Lines(l, _) => l, other => return Err(format!("{} over the first {} of {:?}: batch gives {:?} but follow mode went on", st, k, input, other)) };
        if aggregate {
            match &inc[k - 1] {
                Some(table) => if *table != batch { return Err(format!("{} over {:?}: after line {} follow mode shows {:?}, a batch run over the first {} lines prints {:?}", st, input, k, table, k, batch)); },
                // nothing shown for this line: the table on the screen is the last one shown (nothing at all before the first)
                None => if batch != displayed { return Err(format!("{} over {:?}: after line {} follow mode still shows {:?} (nothing was shown for this line), a batch run over the first {} lines prints {:?}", st, input, k, displayed, k, batch)); },
            }
            if let Some(table) = &inc[k - 1] { displayed = table.clone(); }
        } else {
            let emitted = inc[k - 1].clone().unwrap_or_default();
            let mut want = previous.clone();
            want.extend(emitted.iter().cloned());
            if want != batch { return Err(format!("{} over {:?}: for line {} follow mode emitted {:?}; the batch output grows from {:?} to {:?}", st, input, k, emitted, previous, batch)); }
        }
        previous = batch;
    }
    Ok(())
}

#[test]
fn verif_grid() {
    let mut g = Grid::new("c11");
    let pool = ["k=a v=1", "k=a v=2", "k=b v=1", "k=b v=", "k=a v=-3", "k=c v=7", "garbage"];
    let aggregate = ["SELECT k, COUNT(*) AS n, SUM(v) AS s, MIN(v) AS lo, MAX(v) AS hi FROM t GROUP BY k", "SELECT COUNT(v) AS n, AVG(v) AS a FROM t",
                     "SELECT k, COUNT(*) AS n FROM t GROUP BY k HAVING COUNT(*) > 1", "SELECT DISTINCT COUNT(*) AS n FROM t GROUP BY k",
                     "SELECT k, PERCENTILE(v, 0.5) AS med, COUNT(DISTINCT v) AS d FROM t GROUP BY k", "SELECT k, MAX(v) + 1 AS top FROM t WHERE v IS NOT NULL GROUP BY k HAVING MAX(v) >= 1",
                     "SELECT k, COUNT(*) AS n FROM t GROUP BY k HAVING COUNT(*) < 2"];
    let plain: Vec<&str> = PLAIN.iter().chain(PLAIN_DISTINCT.iter()).cloned().filter(|s| *s != "SELECT input FROM t").collect();
    for (bi, base) in sequences(&pool, 4).into_iter().enumerate() {
        if base.is_empty() { continue; }
        if base.len() == 4 && bi % 7 != 0 { continue; }
        for (si, st) in aggregate.iter().enumerate() {
            if base.len() >= 3 && (bi + si) % 2 != 0 { continue; }
            let b1 = base.clone();
            g.case(&format!("aggregate-b{}-s{}", bi, si), move || check(st, true, &b1));
        }
        for (si, st) in plain.iter().enumerate() {
            if base.len() >= 3 && (bi + si) % 3 != 0 { continue; }
            let (b1, st1) = (base.clone(), st.to_string());
            g.case(&format!("plain-b{}-s{}", bi, si), move || check(&st1, false, &b1));
        }
    }
    g.done();
}
