// Bounded stand-in for C11 (incremental results equal a batch run over the same prefix).
#![allow(dead_code, unused_imports, non_snake_case)]
// Oracle (from the statement): lines are fed one at a time to one engine, exactly as FollowFileExecutor does
// (ExecutionEngine::execute(line, &ExecutionConfig::default()), the returned table printed); after the k-th line the shown
// table of an aggregate query equals the batch output over the first k lines (when the k-th line shows nothing, the table
// last shown is what stays on the screen), and the rows a non-aggregate query emits for the k-th line are what the batch output
// over k lines adds to the batch output over k-1 lines.  Grid: every sequence of up to 4 lines over a 7-line pool (one
// non-admitted) x 7 aggregate statements (HAVING that a group can stop satisfying, DISTINCT, PERCENTILE) and 6 plain / DISTINCT statements, every prefix k.
// Also: TEXT aggregates whose argument is NULL on the first lines of a group (STRING_AGG, MIN / MAX, ARRAY_AGG, COUNT(DISTINCT))
// over a 5-line pool; REAL values that differ in the fifth decimal (4 statements, sequences of up to 3 of 6 lines); a table with a DEFAULT column (unmatched lines are rows); INNER / OUTER JOIN statements (8 aggregate, 4 plain; a key with two partners, WHERE on the joined side) over every sequence of up to 3 of 5 lines (with, without partner, NULL key); a split-pattern table in which blank and whitespace lines are rows.
include!("verif_grid_common.rs");
include!("verif_grid_qcommon.rs");

fn check(st: &str, aggregate: bool, input: &[&str]) -> Result<(), String> { check_in(T, st, aggregate, input) }
fn check_in(def: &str, st: &str, aggregate: bool, input: &[&str]) -> Result<(), String> {
    let inc = match incremental(def, st, input) { Ok(x) => x, Err(e) => {
        // (no statement of this grid has an error on these lines)
        return Err(format!("{} fed line by line over {:?} fails: {}; the batch run gives {:?}", st, input, e, q(def, st, input)));
    } };
    let mut previous: Vec<String> = Vec::new();
    let mut displayed: Vec<String> = Vec::new();
    for k in 1..=input.len() {
        let batch = match q(def, st, &input[..k]) { Outcome::Lines(l, _) => l, other => return Err(format!("{} over the first {} of {:?}: batch gives {:?} but follow mode went on", st, k, input, other)) };
        if aggregate {
            match &inc[k - 1] {
                Some(table) => if *table != batch { return Err(format!("{} over {:?}: after line {} follow mode shows {:?}, a batch run over the first {} lines prints {:?}", st, input, k, table, k, batch)); },
                // nothing shown for this line: the table on the screen is the last one shown (nothing at all before the first)
                None => if batch != displayed { return Err(format!("{} over {:?}: after line {} follow mode still shows {:?} (nothing was shown for this line), a batch run over the first {} lines prints {:?}", st, input, k, displayed, k, batch)); },
            }
            if let Some(table) = &inc[k - 1] { displayed = table.clone(); }
        } else {
            let emitted = inc[k - 1].clone().unwrap_or_default();
            let mut want = previous.clone();
            want.extend(emitted.iter().cloned());
            if want != batch { return Err(format!("{} over {:?}: for line {} follow mode emitted {:?}; the batch output grows from {:?} to {:?}", st, input, k, emitted, previous, batch)); }
        }
        previous = batch;
    }
    Ok(())
}

#[test]
fn verif_grid() {
    let mut g = Grid::new("c11");
    let pool = ["k=a v=1", "k=a v=2", "k=b v=1", "k=b v=", "k=a v=-3", "k=c v=7", "garbage"];
    let aggregate = ["SELECT k, COUNT(*) AS n, SUM(v) AS s, MIN(v) AS lo, MAX(v) AS hi FROM t GROUP BY k", "SELECT COUNT(v) AS n, AVG(v) AS a FROM t",
                     "SELECT k, COUNT(*) AS n FROM t GROUP BY k HAVING COUNT(*) > 1", "SELECT DISTINCT COUNT(*) AS n FROM t GROUP BY k",
                     "SELECT k, PERCENTILE(v, 0.5) AS med, COUNT(DISTINCT v) AS d FROM t GROUP BY k", "SELECT k, MAX(v) + 1 AS top FROM t WHERE v IS NOT NULL GROUP BY k HAVING MAX(v) >= 1",
                     "SELECT k, COUNT(*) AS n FROM t GROUP BY k HAVING COUNT(*) < 2"];
    let plain: Vec<&str> = PLAIN.iter().chain(PLAIN_DISTINCT.iter()).cloned().filter(|s| *s != "SELECT input FROM t").collect();
    for (bi, base) in sequences(&pool, 4).into_iter().enumerate() {
        if base.is_empty() { continue; }
        if base.len() == 4 && left_out(bi, 7) { continue; }
        for (si, st) in aggregate.iter().enumerate() {
            if base.len() >= 3 && left_out(bi + si, 2) { continue; }
            let b1 = base.clone();
            g.case(&format!("aggregate-b{}-s{}", bi, si), move || check(st, true, &b1));
        }
        for (si, st) in plain.iter().enumerate() {
            if base.len() >= 3 && left_out(bi + si, 3) { continue; }
            let (b1, st1) = (base.clone(), st.to_string());
            g.case(&format!("plain-b{}-s{}", bi, si), move || check(&st1, false, &b1));
        }
    }
    // TEXT arguments that are NULL on the first lines of a group and arrive later
    let def2 = "CREATE TABLE t(line = '^k=(\\\\w+)(?: s=(\\\\w+))?$', line[1] => k TEXT, line[2] => s TEXT);";
    let pool2 = ["k=a", "k=a s=x", "k=a s=y", "k=b", "k=b s=x"];
    let agg2 = ["SELECT k, COUNT(*) AS n, STRING_AGG(s, '+') AS joined FROM t GROUP BY k", "SELECT k, COUNT(*) AS n, MIN(s) AS lo, MAX(s) AS hi, COUNT(s) AS c FROM t GROUP BY k",
                "SELECT COUNT(*) AS n, STRING_AGG(s, ',') AS all FROM t", "SELECT k, COUNT(*) AS n, ARRAY_AGG(k) AS ks, COUNT(DISTINCT s) AS d FROM t GROUP BY k"];
    for (bi, base) in sequences(&pool2, 4).into_iter().enumerate() {
        if base.is_empty() || (base.len() == 4 && left_out(bi, 3)) { continue; }
        for (si, st) in agg2.iter().enumerate() {
            let b1 = base.clone();
            g.case(&format!("text-aggregate-b{}-s{}", bi, si), move || check_in(def2, st, true, &b1));
        }
    }
    // a table whose pattern is a split: blank and whitespace lines are rows (field 0 is the whole line)
    let def3 = "CREATE TABLE t(f = split ';', f[0] => whole TEXT, f[1] => first TEXT, f[2] => second TEXT);";
    let pool3 = ["a;b", "", "  ", "c", ";", "a;b"];
    let agg3 = ["SELECT COUNT(*) AS n FROM t", "SELECT first, COUNT(*) AS n FROM t GROUP BY first", "SELECT COUNT(second) AS c, MAX(whole) AS m FROM t"];
    let plain3 = ["SELECT whole, first FROM t", "SELECT DISTINCT first FROM t"];
    for (bi, base) in sequences(&pool3, 3).into_iter().enumerate() {
        if base.is_empty() { continue; }
        for (si, st) in agg3.iter().enumerate() { let b1 = base.clone(); g.case(&format!("split-aggregate-b{}-s{}", bi, si), move || check_in(def3, st, true, &b1)); }
        for (si, st) in plain3.iter().enumerate() { let b1 = base.clone(); g.case(&format!("split-plain-b{}-s{}", bi, si), move || check_in(def3, st, false, &b1)); }
    }
    // REAL and TIMESTAMP values that differ far below the precision of the text rendering: every line that is folded in shows the table of the state after it
    let def6 = "CREATE TABLE t(line = '^k=(\\\\w+) r=(\\\\S+)$', line[1] => k TEXT, line[2] => r REAL);";
    let pool6 = ["k=a r=1.0", "k=a r=1.0001", "k=a r=1.00011", "k=a r=0.99999", "k=b r=1.0", "k=a r=1.0"];
    let agg6 = ["SELECT AVG(r) AS a, MAX(r) AS hi FROM t", "SELECT k, SUM(r) AS s, MIN(r) AS lo FROM t GROUP BY k", "SELECT MAX(r) AS hi FROM t", "SELECT COUNT(*) AS n FROM t"];
    for (bi, base) in sequences(&pool6, 3).into_iter().enumerate() {
        if base.is_empty() { continue; }
        for (si, st) in agg6.iter().enumerate() { let b1 = base.clone(); g.case(&format!("small-changes-b{}-s{}", bi, si), move || check_in(def6, st, true, &b1)); }
    }
    // a table in which a line that no pattern matches is still a row (a column with a DEFAULT)
    let def5 = "CREATE TABLE t(a = 'a=(\\\\d+)', b = 'b=(\\\\w+)', a[1] => x INT, b[1] => y TEXT DEFAULT 'unknown');";
    let pool5 = ["a=1 b=q", "a=2", "nothing", "", "b=z"];
    let agg5 = ["SELECT COUNT(*) AS n, SUM(x) AS s FROM t", "SELECT y, COUNT(*) AS n, COUNT(x) AS c FROM t GROUP BY y", "SELECT COUNT(*) AS n FROM t WHERE y = 'unknown' HAVING COUNT(*) > 1"];
    for (bi, base) in sequences(&pool5, 3).into_iter().enumerate() {
        if base.is_empty() { continue; }
        for (si, st) in agg5.iter().enumerate() { let b1 = base.clone(); g.case(&format!("default-aggregate-b{}-s{}", bi, si), move || check_in(def5, st, true, &b1)); }
        let b1 = base.clone(); g.case(&format!("default-plain-b{}", bi), move || check_in(def5, "SELECT x, y FROM t", false, &b1));
    }
    // statements with a join, the joined file read before the first line (ExecutionEngine::with_executed_joined_table): lines with a partner,
    // without one and with a NULL key; INNER and OUTER
    let joined = write_temp("joined", b"h=alpha site=eu\nh=beta site=us\nh=alpha site=ap\n");
    let def4 = "CREATE TABLE t(line = '^u=(\\\\w+) h=(\\\\w*) c=([0-9]*)$', line[1] => user TEXT, line[2] => host TEXT, line[3] => code INT); \
                CREATE TABLE hosts(line = '^h=(\\\\w+) site=(\\\\w+)$', line[1] => name TEXT, line[2] => site TEXT);";
    let pool4 = ["u=ann h=alpha c=1", "u=bob h=beta c=2", "u=cy h=gamma c=500", "u=dee h= c=7", "u=eve h=alpha c="];
    let mut join_statements: Vec<(String, bool)> = Vec::new();
    for kind in ["INNER", "OUTER"] {
        let from = format!("FROM t {} JOIN hosts::'{}' ON t.host = hosts.name", kind, joined.display());
        join_statements.push((format!("SELECT COUNT(*) AS n, SUM(code) AS s, COUNT(hosts.site) AS c {}", from), true));
        join_statements.push((format!("SELECT hosts.site, COUNT(*) AS n, SUM(code) AS s {} GROUP BY hosts.site", from), true));
        join_statements.push((format!("SELECT COUNT(*) AS n, SUM(code) AS s {} WHERE hosts.site = 'eu'", from), true));
        join_statements.push((format!("SELECT user, COUNT(*) AS n {} WHERE hosts.site != 'eu' GROUP BY user", from), true));
        join_statements.push((format!("SELECT user, hosts.site {}", from), false));
        join_statements.push((format!("SELECT user {} WHERE hosts.site IS NULL", from), false));
    }
    for (bi, base) in sequences(&pool4, 3).into_iter().enumerate() {
        if base.is_empty() { continue; }
        for (si, (st, aggregate)) in join_statements.iter().enumerate() {
            let (b1, st1, aggregate) = (base.clone(), st.clone(), *aggregate);
            g.case(&format!("join-b{}-s{}", bi, si), move || check_in(def4, &st1, aggregate, &b1));
        }
    }
    let _ = std::fs::remove_file(&joined);
    g.done();
}
