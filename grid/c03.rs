// Bounded stand-in for C03 (SELECT / WHERE: one output row per qualifying row, evaluated on that row alone).
#![allow(dead_code, unused_imports)]
// Oracle (from the statement; a small reference evaluator over INT / TEXT / NULL written here): comparisons by value, false
// when an operand is NULL; IS [NOT] NULL; AND / OR / NOT two-valued; arithmetic with NULL gives NULL; x IN (v1, v2) means
// x = v1 OR x = v2 and NOT IN means x != v1 AND x != v2; CASE takes the first true branch; an expression without a value
// (division by zero, overflow, unknown column, type mismatch) makes the query report an error; WHERE keeps exactly the
// rows on which the condition is true, in input order; names = alias, column name, p<i>; `*` = all columns in definition order.
// Grid: every pair (a, b) over {NULL, 0, 1, -1, 2, i64::MAX, i64::MIN} x s in {'x', NULL} as one line each and as one file
// of all 98 lines x 38 projections / conditions (NULL list elements); a column called input; timestamp comparisons by instant with a text literal on either side; 6 functions whose arguments are columns, over a 4-row file.
// Also: REAL comparison flags for every pair of 12 REAL values (signed zeros, adjacent doubles); CASE conditions without a
// value; 1-based array subscripts from a column and as literals (0, negative, beyond the end, 64-bit ends).
// Also: the documented functions (least .. array_prepend) on 4 rows with reference values, EXTRACT /
// date_trunc / make_timestamp on one timestamp.
include!("verif_grid_common.rs");
include!("verif_grid_qcommon.rs");
use serde_json::{json, Value as J};

const DEF: &str = "CREATE TABLE t(line = '^a=(-?[0-9]*) b=(-?[0-9]*)(?: s=(\\\\w+))?$', line[1] => a INT, line[2] => b INT, line[3] => s TEXT);";
type Row = (Option<i64>, Option<i64>, Option<&'static str>);
type Val = Result<J, ()>;   // Err = no value: the query reports an error

fn int(x: Option<i64>) -> J { match x { Some(v) => json!(v), None => J::Null } }
fn arith(a: Option<i64>, b: Option<i64>, f: fn(i64, i64) -> Option<i64>) -> Val { match (a, b) { (Some(x), Some(y)) => f(x, y).map(|v| json!(v)).ok_or(()), _ => Ok(J::Null) } }
fn cmp(a: Option<i64>, b: Option<i64>, f: fn(&i64, &i64) -> bool) -> bool { match (a, b) { (Some(x), Some(y)) => f(&x, &y), _ => false } }

/// (SQL text, reference value on a row)
fn projections() -> Vec<(&'static str, fn(&Row) -> Val)> {
    vec![
        ("a + b", |r| arith(r.0, r.1, i64::checked_add)), ("a - b", |r| arith(r.0, r.1, i64::checked_sub)), ("a * b", |r| arith(r.0, r.1, i64::checked_mul)),
        ("a / b", |r| match (r.0, r.1) { (Some(_), Some(0)) => Err(()), (Some(x), Some(y)) => x.checked_div(y).map(|v| json!(v)).ok_or(()), _ => Ok(J::Null) }),
        ("-a", |r| match r.0 { Some(x) => x.checked_neg().map(|v| json!(v)).ok_or(()), None => Ok(J::Null) }),
        ("a + 1", |r| arith(r.0, Some(1), i64::checked_add)), ("a * 2 - b", |r| match arith(r.0, Some(2), i64::checked_mul)? { J::Null => Ok(J::Null), v => arith(v.as_i64(), r.1, i64::checked_sub) }),
        ("a = b", |r| Ok(json!(cmp(r.0, r.1, i64::eq)))), ("a != b", |r| Ok(json!(cmp(r.0, r.1, i64::ne)))), ("a < b", |r| Ok(json!(cmp(r.0, r.1, i64::lt)))),
        ("a <= b", |r| Ok(json!(cmp(r.0, r.1, i64::le)))), ("a > b", |r| Ok(json!(cmp(r.0, r.1, i64::gt)))), ("a >= b", |r| Ok(json!(cmp(r.0, r.1, i64::ge)))),
        ("a IS NULL", |r| Ok(json!(r.0.is_none()))), ("b IS NOT NULL", |r| Ok(json!(r.1.is_some()))), ("s IS NULL", |r| Ok(json!(r.2.is_none()))),
        ("s = 'x'", |r| Ok(json!(r.2 == Some("x")))), ("s != 'x'", |r| Ok(json!(r.2.is_some() && r.2 != Some("x")))), ("s < 'y'", |r| Ok(json!(r.2.map(|s| s < "y").unwrap_or(false)))),
        ("a = b AND b > 0", |r| Ok(json!(cmp(r.0, r.1, i64::eq) && cmp(r.1, Some(0), i64::gt)))), ("a = b OR b > 0", |r| Ok(json!(cmp(r.0, r.1, i64::eq) || cmp(r.1, Some(0), i64::gt)))),
        ("NOT a = b", |r| Ok(json!(!cmp(r.0, r.1, i64::eq)))), ("NOT (a < b OR a IS NULL)", |r| Ok(json!(!(cmp(r.0, r.1, i64::lt) || r.0.is_none())))),
        ("a IN (1, 2)", |r| Ok(json!(cmp(r.0, Some(1), i64::eq) || cmp(r.0, Some(2), i64::eq)))), ("a NOT IN (1, 2)", |r| Ok(json!(cmp(r.0, Some(1), i64::ne) && cmp(r.0, Some(2), i64::ne)))),
        ("a IN (b)", |r| Ok(json!(cmp(r.0, r.1, i64::eq)))), ("a IN (b, 0)", |r| Ok(json!(cmp(r.0, r.1, i64::eq) || cmp(r.0, Some(0), i64::eq)))),
        ("CASE WHEN a > b THEN 'gt' WHEN a = b THEN 'eq' ELSE 'other' END", |r| Ok(json!(if cmp(r.0, r.1, i64::gt) { "gt" } else if cmp(r.0, r.1, i64::eq) { "eq" } else { "other" }))),
        ("CASE WHEN a IS NULL THEN 0 WHEN a > 0 THEN 1 ELSE -1 END", |r| Ok(json!(match r.0 { None => 0, Some(x) if x > 0 => 1, _ => -1 }))),
        ("CASE WHEN b = 0 THEN 0 ELSE a / b END", |r| match (r.0, r.1) { (_, Some(0)) => Ok(json!(0)), (Some(x), Some(y)) => x.checked_div(y).map(|v| json!(v)).ok_or(()), _ => Ok(J::Null) }),
        // a NULL in the list is an element that equals nothing: x = NULL and x != NULL are both false
        ("a IN (1, NULL)", |r| Ok(json!(cmp(r.0, Some(1), i64::eq)))), ("a IN (NULL, 1)", |r| Ok(json!(cmp(r.0, Some(1), i64::eq)))),
        ("a NOT IN (1, NULL)", |_| Ok(json!(false))), ("a NOT IN (NULL)", |_| Ok(json!(false))), ("a IN (NULL)", |_| Ok(json!(false))),
        // a WHEN condition without a value is an error of the query, not a false branch (conditions are tried in order)
        ("CASE WHEN a / b > 1 THEN 'big' ELSE 'small' END", |r| match (r.0, r.1) { (Some(_), Some(0)) => Err(()), (Some(x), Some(y)) => match x.checked_div(y) { Some(v) => Ok(json!(if v > 1 { "big" } else { "small" })), None => Err(()) }, _ => Ok(json!("small")) }),
        ("CASE WHEN a = 0 THEN 'zero' WHEN b / a > 0 THEN 'pos' ELSE 'other' END", |r| match (r.0, r.1) { (Some(0), _) => Ok(json!("zero")), (Some(x), Some(y)) => match y.checked_div(x) { Some(v) => Ok(json!(if v > 0 { "pos" } else { "other" })), None => Err(()) }, _ => Ok(json!("other")) }),
        ("CASE WHEN nosuch = 1 THEN 1 ELSE 0 END", |_| Err(())),
        ("a + s", |r| match (r.0, r.2) { (Some(_), Some(_)) => Err(()), _ => Ok(J::Null) }),
        ("nosuch", |_| Err(())), ("a + nosuch", |_| Err(())),
    ]
}
/// how the reference treats "a + s" on NULL operands is not fixed by the statement (type error or NULL): those rows are skipped
fn unspecified(sql: &str, r: &Row) -> bool { sql == "a + s" && (r.0.is_none() || r.2.is_none()) }

fn line_of(r: &Row) -> String { format!("a={} b={}{}", r.0.map(|x| x.to_string()).unwrap_or_default(), r.1.map(|x| x.to_string()).unwrap_or_default(), r.2.map(|s| format!(" s={}", s)).unwrap_or_default()) }
fn num_eq(a: &J, b: &J) -> bool { match (a, b) { (J::Number(x), J::Number(y)) => x.as_i64() == y.as_i64() && x.as_f64() == y.as_f64(), _ => a == b } }

#[test]
fn verif_grid() {
    let mut g = Grid::new("c03");
    let ints = [None, Some(0), Some(1), Some(-1), Some(2), Some(i64::MAX), Some(i64::MIN)];
    let mut rows: Vec<Row> = Vec::new();
    for a in ints { for b in ints { for s in [Some("x"), None] { rows.push((a, b, s)); } } }
    // a row whose columns are all NULL is not admitted (C06): keep it out of this grid
    let rows: Vec<Row> = rows.into_iter().filter(|r| r.0.is_some() || r.1.is_some() || r.2.is_some()).collect();
    for (pi, (sql, reference)) in projections().into_iter().enumerate() {
        for (ri, r) in rows.iter().enumerate() {
            if unspecified(sql, r) { continue; }
            let r = *r;
            // as a projection
            g.case(&format!("project-{}-{}", pi, ri), move || {
                let line = line_of(&r);
                let got = q(DEF, &format!("SELECT {} AS x FROM t", sql), &[&line]);
                match (reference(&r), got) {
                    (Ok(want), Outcome::Lines(l, _)) => { if l.len() == 1 && num_eq(&serde_json::from_str::<J>(&l[0]).unwrap()["x"], &want) { Ok(()) } else { Err(format!("`{}` on the row {:?} printed {:?}; its value is {}", sql, line, l, want)) } }
                    (Err(()), Outcome::Error(_)) => Ok(()),
                    (Err(()), other) => Err(format!("`{}` has no value on the row {:?}; the query must report an error, it gave {:?}", sql, line, other)),
                    (Ok(want), other) => Err(format!("`{}` on the row {:?}: value {}, the query gave {:?}", sql, line, want, other)),
                }
            });
        }
        // as a condition over the whole file: exactly the rows on which it is true, in input order (an error if some processed row has no value)
        let lines: Vec<String> = rows.iter().filter(|r| !unspecified(sql, r)).map(line_of).collect();
        let refs: Vec<Val> = rows.iter().filter(|r| !unspecified(sql, r)).map(|r| reference(r)).collect();
        if refs.iter().all(|v| matches!(v, Ok(J::Bool(_)))) {
            g.case(&format!("where-{}", pi), move || {
                let want: Vec<String> = lines.iter().zip(refs.iter()).filter(|(_, v)| **v == Ok(J::Bool(true))).map(|(l, _)| format!("{{\"input\":\"{}\"}}", l)).collect();
                let l: Vec<&str> = lines.iter().map(|s| s.as_str()).collect();
                match q(DEF, &format!("SELECT input FROM t WHERE {}", sql), &l) {
                    Outcome::Lines(got, _) => if got == want { Ok(()) } else { Err(format!("WHERE {} over the {} rows printed {} rows, {} qualify; first difference: {:?} vs {:?}", sql, l.len(), got.len(), want.len(),
                        got.iter().zip(want.iter()).find(|(a, b)| a != b).map(|(a, _)| a.clone()).or(got.get(want.len()).cloned()), got.iter().zip(want.iter()).find(|(a, b)| a != b).map(|(_, b)| b.clone()).or(want.get(got.len()).cloned()))) },
                    other => Err(format!("WHERE {}: {:?}", sql, other)),
                }
            });
        }
    }
    // names and *
    g.case("names", || match q(DEF, "SELECT a + 1, b AS bee, s, 7 FROM t", &["a=1 b=2 s=x"]) {
        Outcome::Lines(l, _) => if l == vec![r#"{"p0":2,"bee":2,"s":"x","p3":7}"#.to_owned()] { Ok(()) } else { Err(format!("SELECT a + 1, b AS bee, s, 7 printed {:?}: names are the alias, else the column name, else p<i>", l)) },
        other => Err(format!("{:?}", other)) });
    g.case("star", || match q(DEF, "SELECT * FROM t", &["a=1 b= s=x", "a= b=2"]) {
        Outcome::Lines(l, _) => if l == vec![r#"{"a":1,"b":null,"s":"x"}"#.to_owned(), r#"{"a":null,"b":2,"s":null}"#.to_owned()] { Ok(()) } else { Err(format!("SELECT * printed {:?}: all columns in definition order, one row per admitted row", l)) },
        other => Err(format!("{:?}", other)) });
    g.case("input", || match q(DEF, "SELECT input, a FROM t WHERE a = 1", &["a=1 b= s=x", "a=2 b=2", "a=1 b=1"]) {
        Outcome::Lines(l, _) => if l == vec![r#"{"input":"a=1 b= s=x","a":1}"#.to_owned(), r#"{"input":"a=1 b=1","a":1}"#.to_owned()] { Ok(()) } else { Err(format!("SELECT input, a WHERE a = 1 printed {:?}", l)) },
        other => Err(format!("{:?}", other)) });
    // a name that is not bound on the row (unknown column, a column under the name of another table) has no value: an error, not some other column
    for (i, query) in ["SELECT nosuch FROM t", "SELECT other.a FROM t", "SELECT t.nosuch FROM t", "SELECT a FROM t WHERE other.a = 1", "SELECT a FROM t WHERE a = 2 OR x.b = 2", "SELECT a + nosuch.b AS v FROM t",
                       "SELECT tt.a FROM t", "SELECT a.a FROM t", "SELECT t.t.a FROM t", "SELECT upper(other.s) AS u FROM t"].into_iter().enumerate() {
        g.case(&format!("unknown-column-{}", i), move || match q(DEF, query, &["a=1 b=2 s=x"]) {
            Outcome::Error(_) => Ok(()), other => Err(format!("{} names a column that the row does not have: an error is due, got {:?}", query, other)) });
    }
    g.case("qualified-column", || match q(DEF, "SELECT t.a, t.s AS q FROM t WHERE t.b = 2", &["a=1 b=2 s=x", "a=2 b=3 s=y"]) {
        Outcome::Lines(l, _) => if l == vec![r#"{"t.a":1,"q":"x"}"#.to_owned()] { Ok(()) } else { Err(format!("SELECT t.a, t.s AS q WHERE t.b = 2 printed {:?}", l)) },
        other => Err(format!("{:?}", other)) });
    // REAL values compare numerically: -0.0 = 0.0, adjacent doubles differ, exactly one of <, =, > holds
    {
        let def = "CREATE TABLE t(line = '^x=(\\\\S+) y=(\\\\S+)$', line[1] => x REAL, line[2] => y REAL);";
        let reals = ["0.0", "-0.0", "1.0", "1.0000000000000002", "0.9999999999999999", "-1.5", "1e308", "-1e308", "5e-324", "0.1", "0.30000000000000004", "0.3"];
        for (i, a) in reals.iter().enumerate() { for (j, c) in reals.iter().enumerate() {
            let line = format!("x={} y={}", a, c);
            let (fa, fc): (f64, f64) = (a.parse().unwrap(), c.parse().unwrap());
            g.case(&format!("real-compare-{}-{}", i, j), move || {
                let want = format!("{{\"lt\":{},\"le\":{},\"eq\":{},\"ne\":{},\"ge\":{},\"gt\":{}}}", fa < fc, fa <= fc, fa == fc, fa != fc, fa >= fc, fa > fc);
                match q(def, "SELECT x < y AS lt, x <= y AS le, x = y AS eq, x != y AS ne, x >= y AS ge, x > y AS gt FROM t", &[&line]) {
                    Outcome::Lines(l, _) => if l == vec![want.clone()] { Ok(()) } else { Err(format!("REAL comparisons on the row {:?} printed {:?}; numerically they are {}", line, l, want)) },
                    other => Err(format!("{:?}", other)) }
            });
        } }
    }
    {
        let def = "CREATE TABLE t(line = '^a=([0-9]+),([0-9]+),([0-9]+) i=(-?[0-9]+)$', line[1], line[2], line[3] => xs INT[], line[4] => i INT);";
        for (k, idx) in [0i64, 1, 2, 3, 4, -1, -2, i64::MAX, i64::MIN, i64::MIN + 1].iter().enumerate() {
            let line = format!("a=10,20,30 i={}", idx);
            let want = match *idx { 1 => "10", 2 => "20", 3 => "30", _ => "null" };
            g.case(&format!("subscript-column-{}", k), move || match q(def, "SELECT xs[i] AS x FROM t", &[&line]) {
                Outcome::Lines(l, _) => if l == vec![format!("{{\"x\":{}}}", want)] { Ok(()) } else { Err(format!("xs[i] with xs = [10, 20, 30] and i = {} printed {:?}; subscripts are 1-based and out of range is NULL: {}", idx, l, want)) },
                other => Err(format!("xs[i] with i = {}: {:?}", idx, other)) });
            if *idx >= -2 && *idx <= 4 {
                let line = "a=10,20,30 i=0".to_owned();
                let q1 = if *idx < 0 { format!("SELECT xs[0 - {}] AS x FROM t", -idx) } else { format!("SELECT xs[{}] AS x FROM t", idx) };
                g.case(&format!("subscript-literal-{}", k), move || match q(def, &q1, &[&line]) {
                    Outcome::Lines(l, _) => if l == vec![format!("{{\"x\":{}}}", want)] { Ok(()) } else { Err(format!("{} with xs = [10, 20, 30] printed {:?}, expected {}", q1, l, want)) },
                    other => Err(format!("{}: {:?}", q1, other)) });
            }
        }
    }
    // the documented functions (README: least, greatest, abs, sqrt, pow, length, upper, lower, array_*, make_timestamp,
    // date_trunc, EXTRACT) on ordinary arguments, taken from columns
    {
        let def = "CREATE TABLE t(line = '^a=(-?[0-9]+) b=(-?[0-9]+) x=(\\\\S+) y=(\\\\S+) s=(\\\\w*) arr=([0-9]+),([0-9]+),([0-9]+)$', line[1] => a INT, line[2] => b INT, line[3] => x REAL, line[4] => y REAL, line[5] => s TEXT, line[6], line[7], line[8] => xs INT[]);";
        let rows: [(i64, i64, f64, f64, &str, [i64; 3]); 4] = [(3, -7, 2.25, 4.0, "MiXed", [1, 2, 2]), (-5, -5, 9.0, 0.5, "abc", [7, 7, 7]), (0, 12, 0.0, 3.0, "", [3, 1, 2]), (100, 99, 1e10, 2.0, "Z9", [0, 0, 1])];
        for (ri, (a, b, x, y, sv, arr)) in rows.iter().enumerate() {
            let line = format!("a={} b={} x={:?} y={:?} s={} arr={},{},{}", a, b, x, y, sv, arr[0], arr[1], arr[2]);
            let uniq = { let mut v = arr.to_vec(); v.sort(); v.dedup(); v.len() };
            let exprs: Vec<(&str, J)> = vec![
                ("least(a, b)", json!(a.min(b))), ("greatest(a, b)", json!(a.max(b))), ("least(x, y)", json!(x.min(*y))), ("greatest(x, y)", json!(x.max(*y))),
                ("abs(a)", json!(a.abs())), ("abs(b)", json!(b.abs())), ("abs(x - y)", json!((x - y).abs())), ("sqrt(x)", json!(x.sqrt())), ("pow(y, 2.0)", json!(y.powf(2.0))), ("pow(x, 0.5)", json!(x.powf(0.5))),
                ("length(s)", json!(sv.len())), ("upper(s)", json!(sv.to_uppercase())), ("lower(s)", json!(sv.to_lowercase())),
                ("array_length(xs)", json!(3)), ("array_append(xs, a)", json!([arr[0], arr[1], arr[2], *a])), ("array_prepend(b, xs)", json!([*b, arr[0], arr[1], arr[2]])),
                ("array_cat(xs, xs)", json!([arr[0], arr[1], arr[2], arr[0], arr[1], arr[2]])), ("array_length(array_unique(xs))", json!(uniq)),
                ("xs[1] + xs[3]", json!(arr[0] + arr[2])), ("array_append(xs, 4)[4]", json!(4)),
            ];
            for (ei, (expr, want)) in exprs.into_iter().enumerate() {
                let line = line.clone();
                g.case(&format!("function-r{}-e{}", ri, ei), move || match q(def, &format!("SELECT {} AS v FROM t", expr), &[&line]) {
                    Outcome::Lines(l, _) => { let got: J = serde_json::from_str(&l[0]).unwrap();
                        let same = { let (p, q): (&J, &J) = (&got["v"], &want); match (p, q) { (J::Number(p), J::Number(q)) => p.as_f64() == q.as_f64(), _ => *p == *q } };
                        if l.len() == 1 && same { Ok(()) } else { Err(format!("{} on the row {:?} printed {:?}; as documented it is {}", expr, line, l, want)) } }
                    other => Err(format!("{} on the row {:?}: {:?}", expr, line, other)) });
            }
        }
        // timestamps: make_timestamp, EXTRACT, date_trunc
        let tdef = "CREATE TABLE t(line = '^ts=(.+)$', line[1] => ts TIMESTAMP);";
        for (i, (expr, want)) in [("EXTRACT(YEAR FROM ts)", json!(2021)), ("EXTRACT(MONTH FROM ts)", json!(3)), ("EXTRACT(DAY FROM ts)", json!(9)), ("EXTRACT(HOUR FROM ts)", json!(14)), ("EXTRACT(MINUTE FROM ts)", json!(25)),
                                  ("EXTRACT(SECOND FROM ts)", json!(36)), ("date_trunc('hour', ts)", json!("2021-03-09 14:00:00.000")), ("date_trunc('day', ts)", json!("2021-03-09 00:00:00.000")),
                                  ("date_trunc('minute', ts)", json!("2021-03-09 14:25:00.000")), ("date_trunc('month', ts)", json!("2021-03-01 00:00:00.000")), ("date_trunc('year', ts)", json!("2021-01-01 00:00:00.000")),
                                  ("make_timestamp(2021, 3, 9, 14, 25, 36, 0)", json!("2021-03-09 14:25:36.000")), ("make_timestamp(2021, 3, 9, 14, 25, 36, 0) = ts", json!(true)),
                                  ("make_timestamp(2021, 3, 9, 14, 25, 36, 500) > ts", json!(true)), ("ts - ts", json!("00:00:00.000")),
                                  // EXTRACT(EPOCH ..) counts seconds, the fraction of a second included (the seventh argument of make_timestamp is microseconds)
                                  ("EXTRACT(EPOCH FROM make_timestamp(2021, 3, 9, 14, 25, 37, 250000)) - EXTRACT(EPOCH FROM ts)", json!(1.25)), ("EXTRACT(EPOCH FROM make_timestamp(2021, 3, 9, 14, 25, 36, 999000)) - EXTRACT(EPOCH FROM ts) < 1.0", json!(true)),
                                  ("EXTRACT(EPOCH FROM make_timestamp(2021, 3, 9, 14, 25, 36, 1000)) > EXTRACT(EPOCH FROM ts)", json!(true)), ("EXTRACT(EPOCH FROM ts) - EXTRACT(EPOCH FROM date_trunc('minute', ts))", json!(36.0)),
                                  ("EXTRACT(EPOCH FROM make_timestamp(2021, 3, 9, 14, 25, 36, 500000)) - EXTRACT(EPOCH FROM date_trunc('second', make_timestamp(2021, 3, 9, 14, 25, 36, 500000)))", json!(0.5))].into_iter().enumerate() {
            g.case(&format!("timestamp-function-{}", i), move || match q(tdef, &format!("SELECT {} AS v FROM t", expr), &["ts=2021-03-09 14:25:36"]) {
                Outcome::Lines(l, _) => { let got: J = serde_json::from_str(&l[0]).unwrap();
                    let same = { let (p, q): (&J, &J) = (&got["v"], &want); match (p, q) { (J::Number(p), J::Number(q)) => p.as_f64() == q.as_f64(), _ => *p == *q } };
                    if same { Ok(()) } else { Err(format!("{} on 2021-03-09 14:25:36 printed {:?}; as documented it is {}", expr, l, want)) } }
                other => Err(format!("{}: {:?}", expr, other)) });
        }
    }
    // text functions count and map characters, not bytes
    {
        let def = "CREATE TABLE t(line = '^s=(.*)$', line[1] => s TEXT);";
        for (i, (text, len, up)) in [("jörg", 4, "JÖRG"), ("日本語", 3, "日本語"), ("naïve café", 10, "NAÏVE CAFÉ"), ("\u{1F600}x", 2, "\u{1F600}X")].iter().enumerate() {
            g.case(&format!("text-function-chars-{}", i), move || match q(def, "SELECT length(s) AS n, upper(s) AS u, length(upper(s)) = length(s) AS same FROM t", &[&format!("s={}", text)]) {
                Outcome::Lines(l, _) => { let v: J = serde_json::from_str(&l[0]).unwrap();
                    if v["n"] == json!(len) && v["u"] == json!(up) { Ok(()) } else { Err(format!("length / upper of {:?} printed {}; the text has {} characters and its upper case is {:?}", text, l[0], len, up)) } }
                other => Err(format!("{:?}", other)) });
        }
    }
    // `input` denotes the raw line, also when the table has a column of that name
    g.case("input-column-name-clash", || {
        let def = "CREATE TABLE t(line = '^input=(\\\\w+) x=([0-9]+)$', line[1] => input TEXT, line[2] => x INT);";
        match q(def, "SELECT x FROM t WHERE input = 'input=abc x=1'", &["input=abc x=1", "input=def x=2"]) {
            Outcome::Lines(l, _) => if l == vec![r#"{"x":1}"#.to_owned()] { Ok(()) } else { Err(format!("a table with a column called input: WHERE input = '<raw line>' printed {:?}; `input` denotes the raw line", l)) },
            other => Err(format!("{:?}", other)) }
    });
    // timestamps compare by instant; a text operand on either side is read as a timestamp literal
    {
        let def = "CREATE TABLE t(line = '^ts=(.+)$', line[1] => ts TIMESTAMP);";
        let lines = ["ts=2020-01-01 00:00:00", "ts=2020-06-15 12:30:00", "ts=2021-01-01 00:00:00"];
        let lit = "2020-06-15 12:30:00";
        for (i, (cond, want)) in [(format!("ts < '{}'", lit), vec![0]), (format!("ts <= '{}'", lit), vec![0, 1]), (format!("ts > '{}'", lit), vec![2]), (format!("ts >= '{}'", lit), vec![1, 2]),
                                  (format!("'{}' < ts", lit), vec![2]), (format!("'{}' <= ts", lit), vec![1, 2]), (format!("'{}' > ts", lit), vec![0]), (format!("'{}' >= ts", lit), vec![0, 1]),
                                  (format!("ts = '{}'", lit), vec![1]), (format!("'{}' != ts", lit), vec![0, 2])].into_iter().enumerate() {
            g.case(&format!("timestamp-compare-{}", i), move || {
                let expected: Vec<String> = want.iter().map(|j| format!("{{\"input\":\"{}\"}}", lines[*j])).collect();
                match q(def, &format!("SELECT input FROM t WHERE {}", cond), &lines) {
                    Outcome::Lines(l, _) => if l == expected { Ok(()) } else { Err(format!("WHERE {} over {:?} printed {:?}; by instant the qualifying rows are {:?}", cond, lines, l, expected)) },
                    other => Err(format!("WHERE {}: {:?}", cond, other)) }
            });
        }
    }
    // functions are evaluated on that row alone: arguments taken from columns differ from row to row
    {
        let def = "CREATE TABLE t(line = '^m=(\\\\w+) p=(\\\\S+) n=(-?[0-9]+)$', line[1] => m TEXT, line[2] => p TEXT, line[3] => n INT);";
        let lines = ["m=abc p=^a n=-3", "m=abc p=^b n=4", "m=bcd p=^b n=0", "m=xyz p=z$ n=7"];
        for (i, (expr, want)) in [("regexp_matches(m, p)", vec!["true", "false", "true", "true"]), ("upper(m)", vec!["\"ABC\"", "\"ABC\"", "\"BCD\"", "\"XYZ\""]), ("length(p)", vec!["2", "2", "2", "2"]),
                                  ("abs(n)", vec!["3", "4", "0", "7"]), ("greatest(n, 1)", vec!["1", "4", "1", "7"]), ("least(n, length(m))", vec!["-3", "3", "0", "3"])].into_iter().enumerate() {
            g.case(&format!("function-per-row-{}", i), move || {
                let expected: Vec<String> = want.iter().map(|v| format!("{{\"x\":{}}}", v)).collect();
                match q(def, &format!("SELECT {} AS x FROM t", expr), &lines) {
                    Outcome::Lines(l, _) => if l == expected { Ok(()) } else { Err(format!("SELECT {} over {:?} printed {:?}; evaluated on each row alone it is {:?}", expr, lines, l, expected)) },
                    other => Err(format!("SELECT {}: {:?}", expr, other)) }
            });
        }
    }
    g.done();
}
