// Bounded stand-in for C19 (interrupting a query stops it promptly and leaves consistent output).
#![allow(dead_code, unused_imports)]
// Oracle (from the statement): when the interrupt flag is cleared no further input line is consumed, no error is reported,
// the output so far is a prefix of the uninterrupted output, and an interrupted aggregate query prints the table for exactly
// the lines consumed.  The flag can be cleared from outside only at observable points: before the run starts, and from the
// printer when the m-th record is printed (non-aggregate queries print while reading).  Grid: every sequence of up to 4 lines
// over a 5-line pool (also split into two files) x 5 plain statements x every m; every statement with the flag cleared
// before the start; a join whose joined file must not be read after an interrupt before the start (at most ten lines).
// Also: a join with several partners per line in interactive mode, interrupted at every printed line; follow mode with a
// backlog of complete lines and the interrupt already pending (nothing consumed, no error); follow mode that is idle when the
// interrupt arrives and whose file grows afterwards.
include!("verif_grid_common.rs");
include!("verif_grid_qcommon.rs");

struct Interrupting { lines: Vec<String>, after: usize, running: Arc<AtomicBool> }
impl Printer for Interrupting {
    fn println(&mut self, line: &str) {
        self.lines.push(line.to_owned());
        if self.lines.len() == self.after { self.running.store(false, Ordering::SeqCst); }
    }
}

/// runs with the flag cleared when the `after`-th record is printed (after = 0: cleared before the start)
fn interrupted(def: &str, query: &str, files: &[Vec<&str>], after: usize) -> Outcome {
    let paths = files.iter().map(|f| write_temp("in", &join_lines(f))).collect::<Vec<_>>();
    let paths2 = paths.clone();
    let (def, query) = (def.to_owned(), query.to_owned());
    let r = std::panic::catch_unwind(move || {
        let tables = match tables(&def) { Ok(t) => t, Err(e) => return Outcome::Error(e) };
        let statement = match parsing::parse(&query) { Ok(s) => s, Err(e) => return Outcome::Error(format!("{}", e)) };
        let running = Arc::new(AtomicBool::new(after != 0));
        let mut executor = FileExecutor::with_output_printer(running.clone(), paths2.iter().map(|p| File::open(p).unwrap()).collect(), json_opts(),
            Interrupting { lines: Vec::new(), after, running: running.clone() }, ExecutionEngine::new(&tables, &statement)).unwrap();
        match executor.execute() {
            Ok(()) => Outcome::Lines(executor.output_printer().printer().lines.clone(), executor.statistics().total_lines),
            Err(e) => Outcome::Error(format!("{}", e)),
        }
    });
    for p in paths { let _ = std::fs::remove_file(p); }
    match r { Ok(o) => o, Err(e) => Outcome::Panic(panic_text(e)) }
}

fn check_plain(st: &str, files: &[Vec<&str>]) -> Result<(), String> {
    let all: Vec<&str> = files.iter().flat_map(|f| f.iter().cloned()).collect();
    let full = match q_files(T, st, files) { Outcome::Lines(l, _) => l, other => return Err(format!("{:?}", other)) };
    // rows printed after each prefix: the line that prints record m
    let mut after_prefix = vec![0usize];
    for k in 1..=all.len() { if let Outcome::Lines(l, _) = q(T, st, &all[..k]) { after_prefix.push(l.len()); } }
    for m in 0..=full.len() {
        match interrupted(T, st, files, m) {
            Outcome::Lines(got, consumed) => {
                if !full.starts_with(&got) { return Err(format!("{} over {:?} interrupted at record {}: printed {:?}, which is not a prefix of the uninterrupted output {:?}", st, files, m, got, full)); }
                let line_of_m = if m == 0 { 0 } else { after_prefix.iter().position(|r| *r >= m).unwrap_or(all.len()) } as u64;
                if consumed > line_of_m { return Err(format!("{} over {:?} interrupted when record {} was printed (by line {}): {} lines were consumed", st, files, m, line_of_m, consumed)); }
                // everything the consumed lines produce has been printed
                let want = q(T, st, &all[..consumed as usize]);
                if want.lines() != Some(&got) { return Err(format!("{} over {:?} interrupted at record {}: {} lines were consumed and {:?} printed; those lines give {:?}", st, files, m, consumed, got, want)); }
            }
            other => return Err(format!("{} over {:?} interrupted at record {}: {:?} (an interrupt is not an error)", st, files, m, other)),
        }
    }
    Ok(())
}

#[test]
fn verif_grid() {
    let mut g = Grid::new("c19");
    let pool = ["k=a v=1", "k=a v=2", "k=b v=", "k=c v=7", "garbage"];
    let plain: Vec<&str> = PLAIN.iter().cloned().collect();
    for (bi, base) in sequences(&pool, 4).into_iter().enumerate() {
        if base.len() == 4 && left_out(bi, 4) { continue; }
        for (si, st) in plain.iter().enumerate() {
            if base.len() >= 3 && left_out(bi + si, 2) { continue; }
            let (b1, st1) = (base.clone(), st.to_string());
            g.case(&format!("plain-b{}-s{}", bi, si), move || check_plain(&st1, &[b1]));
        }
        if base.len() == 3 && bi % 3 == 0 { for cut in 0..=3 {
            let files = vec![base[..cut].to_vec(), base[cut..].to_vec()];
            g.case(&format!("two-files-b{}-cut{}", bi, cut), move || check_plain("SELECT k, v FROM t", &files));
        } }
        // interrupted before the start: nothing is consumed, no error, the aggregate table of zero lines
        if base.len() <= 2 { for (si, st) in PLAIN.iter().chain(PLAIN_DISTINCT.iter()).chain(AGGREGATE.iter()).enumerate() {
            let (b1, st1) = (base.clone(), st.to_string());
            g.case(&format!("before-start-b{}-s{}", bi, si), move || match (interrupted(T, &st1, &[b1.clone()], 0), q(T, &st1, &[])) {
                (Outcome::Lines(got, consumed), Outcome::Lines(empty_run, _)) => if consumed == 0 && got == empty_run { Ok(()) }
                    else { Err(format!("{} over {:?} interrupted before the start consumed {} lines and printed {:?}; a run over no lines prints {:?}", st1, b1, consumed, got, empty_run)) },
                other => Err(format!("{} over {:?} interrupted before the start: {:?}", st1, b1, other)),
            });
        } }
    }
    // the joined file: at most ten more lines while it is being loaded
    {
        let rows: Vec<String> = (0..200).map(|i| format!("h=h{} site=s{}", i, i)).collect();
        let file = write_temp("joined", &join_lines(&rows.iter().map(|s| s.as_str()).collect::<Vec<_>>()));
        let def = "CREATE TABLE t(line = '^u=(\\\\w+) h=(\\\\w*)$', line[1] => k TEXT, line[2] => host TEXT); \
                   CREATE TABLE hosts(line = '^h=(\\\\w+) site=(\\\\w*)$', line[1] => name TEXT, line[2] => site TEXT);";
        let query = format!("SELECT k, hosts.site FROM t INNER JOIN hosts::'{}' ON t.host = hosts.name", file.display());
        g.case("join-before-start", move || {
            let r = interrupted(def, &query, &[vec!["u=ann h=h3", "u=bob h=h150"]], 0);
            let _ = std::fs::remove_file(&file);
            match r {
                // h150 is beyond the first ten lines of the joined file: had loading gone on, a second run line would not matter - nothing may be printed at all
                Outcome::Lines(got, consumed) => if consumed == 0 && got.is_empty() { Ok(()) } else { Err(format!("join interrupted before the start consumed {} lines and printed {:?}", consumed, got)) },
                other => Err(format!("join interrupted before the start: {:?} (an interrupt is not an error)", other)),
            }
        });
    }
    // several rows per line (join), interactive output (a blank line after a multi-row result): interrupted at every printed
    // line, what was printed is a prefix of the uninterrupted output
    {
        let def = "CREATE TABLE t(line = '^u=(\\\\w+) h=(\\\\w*)$', line[1] => k TEXT, line[2] => host TEXT); \
                   CREATE TABLE hosts(line = '^h=(\\\\w+) site=(\\\\w*)$', line[1] => name TEXT, line[2] => site TEXT);";
        let jpool = ["u=ann h=alpha", "u=bob h=gamma", "u=cy h=beta"];
        for (bi, base) in sequences(&jpool, 3).into_iter().enumerate() {
            if base.is_empty() { continue; }
            for (fi, interactive) in [true, false].iter().enumerate() {
                let (base, interactive) = (base.clone(), *interactive);
                g.case(&format!("join-rows-b{}-f{}", bi, fi), move || {
                    let hosts = write_temp("hosts", &join_lines(&["h=alpha site=eu", "h=beta site=us", "h=alpha site=ap", "h=alpha site=sa"]));
                    let query = format!("SELECT k, hosts.site FROM t INNER JOIN hosts::'{}' ON t.host = hosts.name", hosts.display());
                    let run_it = |after: usize| -> Outcome {
                        let path = write_temp("in", &join_lines(&base));
                        let tables = match tables(def) { Ok(t) => t, Err(e) => return Outcome::Error(e) };
                        let statement = match parsing::parse(&query) { Ok(s) => s, Err(e) => return Outcome::Error(format!("{}", e)) };
                        let running = Arc::new(AtomicBool::new(true));
                        let mut executor = FileExecutor::with_output_printer(running.clone(), vec![File::open(&path).unwrap()],
                            DisplayOptions { output_format: OutputFormat::Json, single_result: !interactive, print_result: true },
                            Interrupting { lines: Vec::new(), after, running: running.clone() }, ExecutionEngine::new(&tables, &statement)).unwrap();
                        let r = executor.execute();
                        let _ = std::fs::remove_file(&path);
                        match r { Ok(()) => Outcome::Lines(executor.output_printer().printer().lines.clone(), executor.statistics().total_lines), Err(e) => Outcome::Error(format!("{}", e)) }
                    };
                    let full = match run_it(usize::MAX) { Outcome::Lines(l, _) => l, other => { let _ = std::fs::remove_file(&hosts); return Err(format!("{:?}", other)); } };
                    let mut result = Ok(());
                    for m in 1..=full.len() {
                        match run_it(m) {
                            Outcome::Lines(got, _) => if !full.starts_with(&got) { result = Err(format!("{} over {:?} (blank line after a multi-row result: {}) interrupted when line {} of the output was printed: printed {:?}, which is not a prefix of the uninterrupted output {:?}", query, base, interactive, m, got, full)); break; },
                            other => { result = Err(format!("interrupted at printed line {}: {:?} (an interrupt is not an error)", m, other)); break; }
                        }
                    }
                    let _ = std::fs::remove_file(&hosts);
                    result
                });
            }
        }
    }
    // an interrupt is not an error: the line after the interrupt is not looked at, whatever it holds
    for (i, files) in vec![vec![b("k=a v=1\n\u{0}\nk=a v=2\n")], vec![b("k=a v=1\n"), b("k=a v=2\n")]].into_iter().enumerate() {
        let mut files = files;
        // an invalid UTF-8 line directly after the line that prints record 1 / at the start of the next file
        if i == 0 { files[0][8] = 0xff; } else { files[1].splice(0..0, vec![0xffu8, b'\n']); }
        g.case(&format!("unreadable-line-after-interrupt-{}", i), move || {
            let paths = files.iter().map(|f| write_temp("in", f)).collect::<Vec<_>>();
            let tables = tables(T)?;
            let statement = parsing::parse("SELECT k, v FROM t").map_err(|e| format!("{}", e))?;
            let running = Arc::new(AtomicBool::new(true));
            let mut executor = FileExecutor::with_output_printer(running.clone(), paths.iter().map(|p| File::open(p).unwrap()).collect(), json_opts(),
                Interrupting { lines: Vec::new(), after: 1, running: running.clone() }, ExecutionEngine::new(&tables, &statement)).unwrap();
            let r = executor.execute();
            for p in paths { let _ = std::fs::remove_file(p); }
            match r { Ok(()) => Ok(()), Err(e) => Err(format!("interrupted after the first record; the next line is not valid UTF-8 and the run reports an error: {}", e)) }
        });
    }
    // follow mode with a backlog of complete lines: after the interrupt none of them is consumed (nothing printed, no error)
    for (i, (backlog, query)) in [("k=a v=1\nk=a v=2\nk=b v=3\n", "SELECT k, v FROM t"), ("k=a v=9223372036854775807\nk=a v=1\n", "SELECT SUM(v) AS s FROM t"), ("k=a v=1\nk=a v=x\n", "SELECT v + 1 AS w FROM t")].iter().enumerate() {
        g.case(&format!("follow-backlog-{}", i), move || {
            use sqlgrep::executor::FollowFileExecutor;
            use std::os::unix::io::AsRawFd;
            extern "C" { fn dup(fd: i32) -> i32; fn dup2(a: i32, b: i32) -> i32; fn close(fd: i32) -> i32; }
            let file = write_temp("followed", backlog.as_bytes());
            let out_path = temp_path("stdout");
            let out = File::create(&out_path).unwrap();
            std::io::stdout().flush().unwrap();
            let saved = unsafe { dup(1) };
            unsafe { dup2(out.as_raw_fd(), 1); }
            let file2 = file.clone();
            let query2 = query.to_string();
            let worker = std::thread::spawn(move || -> Result<(), String> {
                let tables = tables(T)?;
                let statement = parsing::parse(&query2).map_err(|e| format!("{}", e))?;
                let mut executor = FollowFileExecutor::new(Arc::new(AtomicBool::new(false)), File::open(&file2).map_err(|e| e.to_string())?, true, Default::default(), ExecutionEngine::new(&tables, &statement)).map_err(|e| e.to_string())?;
                executor.execute().map_err(|e| format!("the interrupted run reports an error: {}", e))
            });
            let t0 = std::time::Instant::now();
            while !worker.is_finished() && t0.elapsed() < std::time::Duration::from_secs(20) { std::thread::sleep(std::time::Duration::from_millis(10)); }
            std::io::stdout().flush().unwrap();
            unsafe { dup2(saved, 1); close(saved); }
            let mut text = String::new();
            { use std::io::Read; let _ = File::open(&out_path).and_then(|mut f| f.read_to_string(&mut text)); }
            let _ = std::fs::remove_file(&out_path);
            let _ = std::fs::remove_file(&file);
            if !worker.is_finished() { return Err(format!("follow mode with the interrupt flag cleared and a backlog {:?} did not stop", backlog)); }
            worker.join().map_err(|_| "panic".to_owned())??;
            let printed: Vec<&str> = text.lines().filter(|l| !l.contains('\u{1b}')).collect();
            if printed.is_empty() { Ok(()) } else { Err(format!("follow mode, interrupt already pending, backlog {:?}: lines were consumed after the interrupt, printed {:?}", backlog, printed)) }
        });
    }
    // follow mode that is idle when the interrupt arrives: the line appended afterwards is not consumed (nothing printed, no error - whatever it holds)
    for (i, (appended, query)) in [("k=a v=0\n", "SELECT 1 / v AS w FROM t"), ("k=a v=1\nk=b v=2\n", "SELECT k, v FROM t"), ("k=a v=5\n", "SELECT COUNT(*) AS n FROM t")].iter().enumerate() {
        g.case(&format!("follow-idle-interrupt-{}", i), move || {
            use sqlgrep::executor::FollowFileExecutor;
            use std::os::unix::io::AsRawFd;
            extern "C" { fn dup(fd: i32) -> i32; fn dup2(a: i32, b: i32) -> i32; fn close(fd: i32) -> i32; }
            let file = write_temp("followed", b"");
            let out_path = temp_path("stdout");
            let out = File::create(&out_path).unwrap();
            std::io::stdout().flush().unwrap();
            let saved = unsafe { dup(1) };
            unsafe { dup2(out.as_raw_fd(), 1); }
            let (file2, query2) = (file.clone(), query.to_string());
            let running = Arc::new(AtomicBool::new(true));
            let running2 = running.clone();
            let worker = std::thread::spawn(move || -> Result<(), String> {
                let tables = tables(T)?;
                let statement = parsing::parse(&query2).map_err(|e| format!("{}", e))?;
                let mut executor = FollowFileExecutor::new(running2, File::open(&file2).map_err(|e| e.to_string())?, true, Default::default(), ExecutionEngine::new(&tables, &statement)).map_err(|e| e.to_string())?;
                executor.execute().map_err(|e| format!("the interrupted run reports an error: {}", e))
            });
            std::thread::sleep(std::time::Duration::from_millis(500));   // the executor is waiting for the file to grow
            running.store(false, Ordering::SeqCst);
            std::thread::sleep(std::time::Duration::from_millis(100));
            { let mut f = std::fs::OpenOptions::new().append(true).open(&file).unwrap(); f.write_all(appended.as_bytes()).unwrap(); }
            let t0 = std::time::Instant::now();
            while !worker.is_finished() && t0.elapsed() < std::time::Duration::from_secs(20) { std::thread::sleep(std::time::Duration::from_millis(10)); }
            std::io::stdout().flush().unwrap();
            unsafe { dup2(saved, 1); close(saved); }
            let mut text = String::new();
            { use std::io::Read; let _ = File::open(&out_path).and_then(|mut f| f.read_to_string(&mut text)); }
            let _ = std::fs::remove_file(&out_path);
            let _ = std::fs::remove_file(&file);
            if !worker.is_finished() { return Err(format!("follow mode, idle, then the interrupt, then {:?} appended: the executor did not stop", appended)); }
            worker.join().map_err(|_| "panic".to_owned())??;
            let printed: Vec<&str> = text.lines().filter(|l| !l.contains('\u{1b}')).collect();
            if printed.is_empty() { Ok(()) } else { Err(format!("follow mode, idle, then the interrupt, then {:?} appended: the line was consumed after the interrupt, printed {:?}", appended, printed)) }
        });
    }
    // which lines of the joined file were consumed after an interrupt, probed through the queried table: at most the first ten
    for (i, (head, noise)) in [(5usize, 25usize), (0, 30), (9, 40), (3, 7), (12, 3)].iter().enumerate() {
        let (head, noise) = (*head, *noise);
        g.case(&format!("join-load-{}", i), move || {
            let n = 60usize;
            let lines: Vec<String> = (0..n).map(|j| if j < head || j >= head + noise { format!("h=h{} site=s{}", j, j) } else { format!("kernel: [{}] link up", j) }).collect();
            let file = write_temp("joined", &join_lines(&lines.iter().map(|s| s.as_str()).collect::<Vec<_>>()));
            let def = "CREATE TABLE t(line = '^u=(\\\\w+) h=(\\\\w*)$', line[1] => k TEXT, line[2] => host TEXT); \
                       CREATE TABLE hosts(line = '^h=(\\\\w+) site=(\\\\w*)$', line[1] => name TEXT, line[2] => site TEXT);";
            let tables = tables(def)?;
            let statement = parsing::parse(&format!("SELECT k, hosts.site FROM t INNER JOIN hosts::'{}' ON t.host = hosts.name", file.display())).map_err(|e| format!("{}", e))?;
            let mut engine = ExecutionEngine::new(&tables, &statement);
            let r = engine.execute_joined_table(Arc::new(AtomicBool::new(false)));
            let _ = std::fs::remove_file(&file);
            if let Err(e) = r { return Err(format!("loading the joined file after an interrupt reports an error: {}", e)); }
            let mut loaded = Vec::new();
            for j in 0..n {
                let out = engine.execute(format!("u=probe h=h{}", j), &sqlgrep::execution::execution_engine::ExecutionConfig::default()).map_err(|e| format!("{}", e))?;
                if out.result_row.is_some() { loaded.push(j); }
            }
            // control: without an interrupt every row of the file is loaded (the probe sees what was consumed)
            let mut engine2 = ExecutionEngine::new(&tables, &statement);
            let file2 = write_temp("joined", &join_lines(&lines.iter().map(|s| s.as_str()).collect::<Vec<_>>()));
            let statement2 = parsing::parse(&format!("SELECT k, hosts.site FROM t INNER JOIN hosts::'{}' ON t.host = hosts.name", file2.display())).map_err(|e| format!("{}", e))?;
            let mut engine2b = ExecutionEngine::new(&tables, &statement2);
            let _ = &mut engine2;
            let r2 = engine2b.execute_joined_table(Arc::new(AtomicBool::new(true)));
            let _ = std::fs::remove_file(&file2);
            r2.map_err(|e| format!("{}", e))?;
            let mut all = Vec::new();
            for j in 0..n {
                let out = engine2b.execute(format!("u=probe h=h{}", j), &sqlgrep::execution::execution_engine::ExecutionConfig::default()).map_err(|e| format!("{}", e))?;
                if out.result_row.is_some() { all.push(j); }
            }
            let want: Vec<usize> = (0..n).filter(|j| *j < head || *j >= head + noise).collect();
            if all != want { return Err(format!("control: an uninterrupted load of the joined file makes the lines {:?} visible, the rows are at {:?}", all, want)); }
            if loaded.iter().all(|j| *j < 10) { Ok(()) } else { Err(format!("joined file with rows at lines 0..{} and {}..60 (other lines in between): after an interrupt before loading, the lines {:?} were consumed - more than ten", head, head + noise, loaded)) }
        });
    }
    g.done();
}
