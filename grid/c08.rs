// Bounded stand-in for C08 (DISTINCT emits each distinct output tuple once, at its first occurrence).
#![allow(dead_code, unused_imports)]
// Oracle (from the statement): rows(SELECT DISTINCT e) == rows(SELECT e) with every row removed that equals an earlier row
// (NULL equal to NULL, numbers by value: 1 and 1.0 of the same REAL column, -0.0 and 0.0), order and content otherwise
// unchanged; for aggregate queries the same on the printed table, with or without HAVING.
// Grid: every sequence of up to 4 lines over a 5-line pool (TEXT / INT / NULL columns), up to 3 over a REAL pool with
// 0.0 / -0.0 / 1 / 1.0 / 1.5; 6 plain statements, 5 aggregate statements (HAVING on a value that is not shown); recurrence after a gap of 500 / 700 / 200000 lines; integers next to 2^53 and at the 64-bit ends.
// Also: the tables one engine shows while it is fed line by line (follow mode), for the DISTINCT aggregate statements.
include!("verif_grid_common.rs");
include!("verif_grid_qcommon.rs");

/// first occurrences, rows compared as parsed JSON where numbers compare by value
fn dedup(rows: &[String]) -> Vec<String> {
    let mut seen: Vec<serde_json::Value> = Vec::new();
    let mut out = Vec::new();
    for r in rows {
        let v: serde_json::Value = serde_json::from_str(r).unwrap();
        if !seen.iter().any(|s| json_eq(s, &v)) { seen.push(v); out.push(r.clone()); }
    }
    out
}
fn json_eq(a: &serde_json::Value, b: &serde_json::Value) -> bool {
    use serde_json::Value as J;
    match (a, b) {
        (J::Number(x), J::Number(y)) => x.as_f64() == y.as_f64(),
        (J::Object(x), J::Object(y)) => x.len() == y.len() && x.iter().zip(y.iter()).all(|((k1, v1), (k2, v2))| k1 == k2 && json_eq(v1, v2)),
        (J::Array(x), J::Array(y)) => x.len() == y.len() && x.iter().zip(y.iter()).all(|(p, q)| json_eq(p, q)),
        _ => a == b,
    }
}

fn check(def: &str, plain: &str, distinct: &str, input: &[&str]) -> Result<(), String> {
    match (q(def, plain, input), q(def, distinct, input)) {
        (Outcome::Lines(p, _), Outcome::Lines(d, _)) => {
            let want = dedup(&p);
            // a surviving row may show an equal number in another spelling only if it IS that first occurrence: compare texts
            if d == want { Ok(()) } else { Err(format!("{} over {:?} printed {:?}; {} prints {:?}, whose first occurrences are {:?}", distinct, input, d, plain, p, want)) }
        }
        (p, d) => Err(format!("{} over {:?} gives {:?} but {} gives {:?}", distinct, input, d, plain, p)),
    }
}

#[test]
fn verif_grid() {
    let mut g = Grid::new("c08");
    let plain = [("SELECT k FROM t", "SELECT DISTINCT k FROM t"), ("SELECT k, v FROM t", "SELECT DISTINCT k, v FROM t"), ("SELECT v FROM t", "SELECT DISTINCT v FROM t"),
                 ("SELECT v, k FROM t WHERE k != 'c'", "SELECT DISTINCT v, k FROM t WHERE k != 'c'"), ("SELECT v IS NULL AS missing FROM t", "SELECT DISTINCT v IS NULL AS missing FROM t"),
                 ("SELECT * FROM t", "SELECT DISTINCT * FROM t")];
    let aggregate = [("SELECT COUNT(*) AS n FROM t GROUP BY k", "SELECT DISTINCT COUNT(*) AS n FROM t GROUP BY k"),
                     ("SELECT MAX(v) AS m FROM t GROUP BY k", "SELECT DISTINCT MAX(v) AS m FROM t GROUP BY k"),
                     ("SELECT COUNT(*) AS n FROM t GROUP BY k HAVING COUNT(*) >= 1", "SELECT DISTINCT COUNT(*) AS n FROM t GROUP BY k HAVING COUNT(*) >= 1"),
                     ("SELECT COUNT(*) AS n FROM t GROUP BY k HAVING MAX(v) > 1", "SELECT DISTINCT COUNT(*) AS n FROM t GROUP BY k HAVING MAX(v) > 1"),
                     ("SELECT COUNT(v) AS n, MIN(v) AS lo FROM t GROUP BY k HAVING MAX(v) > 0", "SELECT DISTINCT COUNT(v) AS n, MIN(v) AS lo FROM t GROUP BY k HAVING MAX(v) > 0")];
    let pool5 = ["k=a v=1", "k=a v=2", "k=b v=1", "k=b v=", "k=c v=7"];
    for (bi, base) in sequences(&pool5, 4).into_iter().enumerate() {
        for (si, (p, d)) in plain.iter().enumerate() {
            if base.len() == 4 && left_out(bi + si, 3) { continue; }
            let b1 = base.clone();
            g.case(&format!("plain-b{}-s{}", bi, si), move || check(T, p, d, &b1));
        }
        if base.len() <= 3 || bi % 5 == 0 { for (si, (p, d)) in aggregate.iter().enumerate() {
            let b1 = base.clone();
            g.case(&format!("aggregate-b{}-s{}", bi, si), move || check(T, p, d, &b1));
        } }
    }
    // one engine refreshing its table line after line (follow mode): every shown table is the DISTINCT table of the lines so far
    for (bi, base) in sequences(&pool5, 4).into_iter().enumerate() {
        if base.len() < 2 || (base.len() == 4 && left_out(bi, 4)) { continue; }
        for (si, (_, d)) in aggregate.iter().enumerate() {
            let b1 = base.clone();
            g.case(&format!("refresh-b{}-s{}", bi, si), move || {
                let shown = incremental(T, d, &b1)?;
                for k in 1..=b1.len() {
                    if let Some(table) = &shown[k - 1] {
                        match q(T, d, &b1[..k]) {
                            Outcome::Lines(batch, _) => if *table != batch { return Err(format!("{} fed line by line over {:?}: the table shown after line {} is {:?}; the DISTINCT table of those lines is {:?}", d, b1, k, table, batch)); },
                            other => return Err(format!("{:?}", other)),
                        }
                    }
                }
                Ok(())
            });
        }
    }
    // REAL values: numbers by value
    let rdef = "CREATE TABLE t(line = '^x=(\\\\S+)$', line[1] => x REAL);";
    let rpool = ["x=0.0", "x=-0.0", "x=1", "x=1.0", "x=1.5"];
    for (bi, base) in sequences(&rpool, 3).into_iter().enumerate() {
        let b1 = base.clone();
        g.case(&format!("real-b{}", bi), move || check(rdef, "SELECT x FROM t", "SELECT DISTINCT x FROM t", &b1));
    }
    // recurrence after a long gap
    {
        let mut lines: Vec<String> = vec!["k=a v=1".to_owned()];
        for i in 0..500 { lines.push(format!("k=g{} v={}", i, i)); }
        lines.push("k=a v=1".to_owned());
        g.case("long-gap", move || { let l: Vec<&str> = lines.iter().map(|s| s.as_str()).collect(); check(T, "SELECT k, v FROM t", "SELECT DISTINCT k, v FROM t", &l) });
    }
    for (i, (first, second)) in [("x=0.0", "x=-0.0"), ("x=-0.0", "x=0.0"), ("x=1", "x=1.0")].iter().enumerate() {
        let mut lines: Vec<String> = vec![first.to_string()];
        for j in 0..700 { lines.push(format!("x={}.5", j)); }
        lines.push(second.to_string());
        g.case(&format!("real-long-gap-{}", i), move || { let l: Vec<&str> = lines.iter().map(|s| s.as_str()).collect(); check(rdef, "SELECT x FROM t", "SELECT DISTINCT x FROM t", &l) });
    }
    {
        let mut lines: Vec<String> = vec!["k=first v=1".to_owned()];
        for i in 0..200000 { lines.push(format!("k=g{} v={}", i, i)); }
        lines.push("k=first v=1".to_owned());
        g.case("very-long-gap", move || { let l: Vec<&str> = lines.iter().map(|s| s.as_str()).collect();
            match q(T, "SELECT DISTINCT k, v FROM t", &l) { Outcome::Lines(d, _) => if d.len() == 200001 && d.iter().filter(|r| r.contains("\"first\"")).count() == 1 { Ok(()) }
                else { Err(format!("a tuple recurs after 200000 other distinct tuples: SELECT DISTINCT printed {} rows (200001 distinct tuples), the recurring one {} times", d.len(), d.iter().filter(|r| r.contains("\"first\"")).count())) },
                other => Err(format!("{:?}", other)) } });
    }
    // integers beyond 2^53 are different numbers
    {
        let idef = "CREATE TABLE t(line = '^x=(-?[0-9]+)$', line[1] => x INT);";
        for (i, input) in [vec!["x=9007199254740992", "x=9007199254740993"], vec!["x=9223372036854775807", "x=9223372036854775806", "x=9223372036854775807"],
                           vec!["x=-9223372036854775808", "x=-9223372036854775807"]].into_iter().enumerate() {
            g.case(&format!("big-int-{}", i), move || match (q(idef, "SELECT x FROM t", &input), q(idef, "SELECT DISTINCT x FROM t", &input)) {
                (Outcome::Lines(p, _), Outcome::Lines(d, _)) => {
                    let mut want: Vec<String> = Vec::new();
                    for r in &p { if !want.contains(r) { want.push(r.clone()); } }
                    if d == want { Ok(()) } else { Err(format!("SELECT DISTINCT x over {:?} printed {:?}; the distinct integers in order are {:?}", input, d, want)) }
                }
                (p, d) => Err(format!("{:?} / {:?}", p, d)),
            });
        }
    }
    g.done();
}
