// Bounded stand-in for C01 (regex / split extraction yields exactly the captured, typed column values).
#![allow(dead_code, unused_imports)]
// Oracle (from the statement, using the regex crate's own leftmost match on the line): each column holds the text of the
// referenced group (or split field; index 0 of a split pattern is the whole line) converted to the declared type: NULL or
// the DEFAULT when the pattern or the group did not take part, NULL when the text is not a literal of the type, BOOLEAN =
// the group's existence, TRIM on TEXT, arrays and TIMESTAMPs position by position from their listed groups (a part that is
// out of range gives no timestamp), never a value from another group or line, never truncated or wrapped.
// Grid: 30 column definitions over 3 capture patterns, two split patterns and inline patterns (one with the text of a split pattern; columns over groups of two patterns) x 74 lines (partial matches,
// no match, empty groups, 64-bit extremes and beyond, out-of-range date parts, two matches on one line, surrounding blanks),
// each line alone and all lines as one file (no value leaks from another line).
// Also: INTERVAL literals (exactly hours:minutes:seconds), month names in a day / month-name / year TIMESTAMP (only a month
// name is a month), several columns of one split pattern (a plain column next to an array / TIMESTAMP over higher fields).
include!("verif_grid_common.rs");
include!("verif_grid_qcommon.rs");
use serde_json::{json, Value as J};

const P_MAIN: &str = r"u=(\w*) n=(-?[0-9]*) r=(\S*)( flag)?";
const P_DATE: &str = r"d=([0-9]+)-([0-9]+)-([0-9]+)(?: ([0-9]+):([0-9]+):([0-9]+))?";
const P_PAD: &str = r"t=\[([^\]]*)\]";

/// (column definition text after the reference, group, type, modifiers) for the main pattern
struct Col { def: &'static str, value: fn(&str) -> J }

fn caps(pattern: &str, line: &str) -> Option<Vec<Option<String>>> {
    regex::Regex::new(pattern).unwrap().captures(line).map(|c| (0..c.len()).map(|i| c.get(i).map(|m| m.as_str().to_owned())).collect())
}
fn group(pattern: &str, line: &str, i: usize) -> Option<String> { caps(pattern, line).and_then(|c| c.get(i).cloned().flatten()) }
fn as_int(t: Option<String>) -> J { match t { Some(s) => s.parse::<i64>().map(|x| json!(x)).unwrap_or(J::Null), None => J::Null } }
fn as_real(t: Option<String>) -> J { match t { Some(s) => s.parse::<f64>().ok().filter(|x| x.is_finite()).map(|x| json!(x)).unwrap_or(J::Null), None => J::Null } }
fn as_text(t: Option<String>) -> J { match t { Some(s) => json!(s), None => J::Null } }
fn or_default(v: J, present: bool, default: J) -> J { if present { v } else { default } }

fn split_fields(line: &str) -> Vec<String> { let mut v = vec![line.to_owned()]; v.extend(regex::Regex::new(",").unwrap().split(line).map(|s| s.to_owned())); v }

fn timestamp(parts: &[Option<String>]) -> J {
    // year, month, day[, hour, minute, second]; a part that is not a number or out of range gives no timestamp
    let mut n = [0i64, 1, 1, 0, 0, 0];
    // (a listed group that did not take part gives no timestamp: "NULL when the pattern or group did not take part")
    for (i, p) in parts.iter().enumerate() { match p { Some(s) => match s.parse::<i64>() { Ok(x) => n[i] = x, Err(_) => return J::Null }, None => return J::Null } }
    if n[1] < 1 || n[1] > 12 || n[2] < 1 || n[3] > 23 || n[4] > 59 || n[5] > 59 { return J::Null; }
    let dim = match n[1] { 2 => if (n[0] % 4 == 0 && n[0] % 100 != 0) || n[0] % 400 == 0 { 29 } else { 28 }, 4 | 6 | 9 | 11 => 30, _ => 31 };
    if n[2] > dim { return J::Null; }
    json!(format!("{:04}-{:02}-{:02} {:02}:{:02}:{:02}.000", n[0], n[1], n[2], n[3], n[4], n[5]))
}

fn columns() -> Vec<Col> {
    vec![
        Col { def: "line[1] => v TEXT", value: |l| as_text(group(P_MAIN, l, 1)) },
        Col { def: "line[2] => v INT", value: |l| as_int(group(P_MAIN, l, 2)) },
        Col { def: "line[3] => v REAL", value: |l| as_real(group(P_MAIN, l, 3)) },
        Col { def: "line[4] => v BOOLEAN", value: |l| match caps(P_MAIN, l) { Some(c) => json!(c[4].is_some()), None => J::Null } },
        Col { def: "line[2] => v INT DEFAULT 42", value: |l| match caps(P_MAIN, l) { Some(c) => as_int(c[2].clone()), None => json!(42) } },
        Col { def: "line[1] => v TEXT DEFAULT 'nobody'", value: |l| match caps(P_MAIN, l) { Some(c) => as_text(c[1].clone()), None => json!("nobody") } },
        Col { def: "line[0] => v TEXT", value: |l| as_text(group(P_MAIN, l, 0)) },
        Col { def: "line[1], line[2] => v TEXT[]", value: |l| match caps(P_MAIN, l) { Some(c) => json!([as_text(c[1].clone()), as_text(c[2].clone())]), None => J::Null } },
        Col { def: "pad[1] => v TEXT TRIM", value: |l| match group(P_PAD, l, 1) { Some(s) => json!(s.trim()), None => J::Null } },
        Col { def: "pad[1] => v TEXT", value: |l| as_text(group(P_PAD, l, 1)) },
        Col { def: "date[1], date[2], date[3] => v TIMESTAMP", value: |l| match caps(P_DATE, l) { Some(c) => timestamp(&c[1..4]), None => J::Null } },
        Col { def: "date[1], date[2], date[3], date[4], date[5], date[6] => v TIMESTAMP", value: |l| match caps(P_DATE, l) { Some(c) => timestamp(&c[1..7]), None => J::Null } },
        Col { def: "csv[2] => v INT", value: |l| as_int(split_fields(l).get(2).cloned()) },
        Col { def: "csv[0] => v TEXT", value: |l| as_text(split_fields(l).get(0).cloned()) },
        // an INTERVAL literal is exactly hours:minutes:seconds
        Col { def: "iv[1] => v INTERVAL", value: |l| match group(r"i=(\S*)", l, 1) { Some(t) => { let parts: Vec<&str> = t.split(':').collect();
              if parts.len() != 3 { return J::Null; } let n: Vec<Option<i64>> = parts.iter().map(|p| p.parse::<i64>().ok()).collect();
              match (n[0], n[1], n[2]) { (Some(h), Some(m), Some(sec)) if h.abs() < 1_000_000 && m.abs() < 1_000_000 && sec.abs() < 1_000_000 => { let total = h * 3600 + m * 60 + sec;
                  if total < 0 { return J::String("skip".to_owned()); }
                  json!(format!("{:02}:{:02}:{:02}.000", total / 3600, (total / 60) % 60, total % 60)) }, (Some(_), Some(_), Some(_)) => J::String("skip".to_owned()), _ => J::Null } }, None => J::Null } },
        // day, month NAME, year: only a month name is a month
        Col { def: "dmy[3], dmy[2], dmy[1] => v TIMESTAMP", value: |l| match caps(r"on ([0-9]+) ([A-Za-z]+) ([0-9]+)", l) { Some(c) => {
              let m = match c[2].as_deref().unwrap().to_lowercase().as_str() { "jan" => 1, "feb" => 2, "mar" => 3, "apr" => 4, "may" => 5, "jun" | "june" => 6, "jul" | "july" => 7, "aug" => 8, "sep" | "sept" => 9, "oct" => 10, "nov" => 11, "dec" => 12, _ => 0 };
              if m == 0 { J::Null } else { timestamp(&[c[3].clone(), Some(m.to_string()), c[1].clone()]) } }, None => J::Null } },
        // seven parts: the last one is milliseconds, or microseconds when the column says MICROSECONDS
        Col { def: "f7[1], f7[2], f7[3], f7[4], f7[5], f7[6], f7[7] => v TIMESTAMP", value: |l| match caps(r"at ([0-9]+)-([0-9]+)-([0-9]+)T([0-9]+):([0-9]+):([0-9]+)\.([0-9]+)", l) { Some(c) => {
              let base = timestamp(&c[1..7]); let frac = c[7].as_deref().unwrap().parse::<u64>().ok();
              match (base, frac) { (J::String(b), Some(f)) if f < 1000 => json!(format!("{}.{:03}", &b[..19], f)), _ => J::Null } }, None => J::Null } },
        Col { def: "f7[1], f7[2], f7[3], f7[4], f7[5], f7[6], f7[7] => v TIMESTAMP MICROSECONDS", value: |l| match caps(r"at ([0-9]+)-([0-9]+)-([0-9]+)T([0-9]+):([0-9]+):([0-9]+)\.([0-9]+)", l) { Some(c) => {
              let base = timestamp(&c[1..7]); let frac = c[7].as_deref().unwrap().parse::<u64>().ok();
              match (base, frac) { (J::String(b), Some(f)) if f < 1_000_000 => json!(format!("{}.{:03}", &b[..19], f / 1000)), _ => J::Null } }, None => J::Null } },
        Col { def: "csv[1] => w TEXT, csv[2], csv[3] => v TEXT[]", value: |l| { let f = split_fields(l); let e: Vec<J> = vec![as_text(f.get(2).cloned()), as_text(f.get(3).cloned())]; if e.iter().all(|x| x.is_null()) { J::Null } else { J::Array(e) } } },
        Col { def: "csv[1] => w TEXT, csv[3] => v TEXT", value: |l| as_text(split_fields(l).get(3).cloned()) },
        Col { def: "csv[3] => v TEXT, csv[1] => w TEXT", value: |l| as_text(split_fields(l).get(3).cloned()) },
        // groups of several patterns in one column: each listed group is looked up in ITS pattern
        Col { def: "line[1], pad[1] => v TEXT[]", value: |l| { let e = vec![as_text(group(P_MAIN, l, 1)), as_text(group(P_PAD, l, 1))]; if e.iter().all(|x| x.is_null()) { J::Null } else { J::Array(e) } } },
        Col { def: "pad[1], line[2], line[1] => v TEXT[]", value: |l| { let e = vec![as_text(group(P_PAD, l, 1)), as_text(group(P_MAIN, l, 2)), as_text(group(P_MAIN, l, 1))]; if e.iter().all(|x| x.is_null()) { J::Null } else { J::Array(e) } } },
        Col { def: "date[1], date[2], date[3], f7[4], f7[5], f7[6] => v TIMESTAMP", value: |l| match (caps(P_DATE, l), caps(r"at ([0-9]+)-([0-9]+)-([0-9]+)T([0-9]+):([0-9]+):([0-9]+)\.([0-9]+)", l)) {
              (Some(d), Some(t)) => timestamp(&[d[1].clone(), d[2].clone(), d[3].clone(), t[4].clone(), t[5].clone(), t[6].clone()]), _ => J::Null } },
        // the month group (or any other) is optional in the pattern: a group that did not take part gives no timestamp
        Col { def: "ym[1], ym[2], ym[3] => v TIMESTAMP", value: |l| match caps(r"y=([0-9]+)(?: m=([0-9a-z]+))? q=([0-9]+)", l) { Some(c) => match c[2].as_deref() {
              Some(m) if m.parse::<i64>().is_err() => { let n = match m { "jan" => 1, "feb" => 2, "mar" => 3, "apr" => 4, "may" => 5, "jun" | "june" => 6, "jul" | "july" => 7, "aug" => 8, "sep" | "sept" => 9, "oct" => 10, "nov" => 11, "dec" => 12, _ => 0 };
                  if n == 0 { J::Null } else { timestamp(&[c[1].clone(), Some(n.to_string()), c[3].clone()]) } },
              _ => timestamp(&c[1..4]) }, None => J::Null } },
        // an inline pattern whose text is also the text of a named split pattern is still a pattern of its own: group 1 of its leftmost match
        Col { def: "'([,;])' => v TEXT", value: |l| as_text(group("([,;])", l, 1)) },
        Col { def: "'([,;])' => v TEXT DEFAULT 'none'", value: |l| match caps("([,;])", l) { Some(c) => as_text(c[1].clone()), None => json!("none") } },
        Col { def: "'([,;])' => v BOOLEAN", value: |l| match caps("([,;])", l) { Some(c) => json!(c[1].is_some()), None => J::Null } },
        Col { def: "ymd[1] => w TEXT, ymd[1], ymd[2], ymd[3] => v TIMESTAMP", value: |l| { let f: Vec<String> = { let mut v = vec![l.to_owned()]; v.extend(l.split('/').map(|s| s.to_owned())); v };
              if f.len() < 4 { J::Null } else { timestamp(&[Some(f[1].clone()), Some(f[2].clone()), Some(f[3].clone())]) } } },
    ]
}

fn definition(col: &str) -> String {
    format!("CREATE TABLE t(line = '{}', date = '{}', pad = '{}', csv = split ',', sep = split '([,;])', ym = 'y=([0-9]+)(?: m=([0-9a-z]+))? q=([0-9]+)', f7 = 'at ([0-9]+)-([0-9]+)-([0-9]+)T([0-9]+):([0-9]+):([0-9]+)\\\\.([0-9]+)', ymd = split '/', iv = 'i=(\\\\S*)', dmy = 'on ([0-9]+) ([A-Za-z]+) ([0-9]+)', 'always=(.*)|(.*)' => anchor TEXT DEFAULT 'row', {});",
        P_MAIN.replace('\\', "\\\\"), P_DATE.replace('\\', "\\\\"), P_PAD.replace('\\', "\\\\"), col)
}

fn num_eq(a: &J, b: &J) -> bool {
    if *b == J::String("skip".to_owned()) { return true; }
    match (a, b) { (J::Number(x), J::Number(y)) => if x.is_i64() && y.is_i64() { x == y } else { x.as_f64() == y.as_f64() },
                   (J::Array(x), J::Array(y)) => x.len() == y.len() && x.iter().zip(y.iter()).all(|(p, q)| num_eq(p, q)), _ => a == b }
}

#[test]
fn verif_grid() {
    let mut g = Grid::new("c01");
    let lines: Vec<&str> = vec![
        "u=ann n=1 r=1.5 flag", "u=bob n=-7 r=2", "u= n= r=", "u=cy n=abc r=x", "u=dee n=9223372036854775807 r=1e308", "u=eve n=9223372036854775808 r=1e400",
        "u=fay n=-9223372036854775808 r=-0.0", "u=gus n=-9223372036854775809 r=nan", "u=hal n=007 r=.5 flag", "prefix u=ivy n=3 r=4 flag suffix", "u=one n=1 r=1 u=two n=2 r=2",
        "u=jo n=1", "n=5 r=2", "nothing here", "", "U=ann n=1 r=1",
        "d=2020-02-29", "d=2021-02-29", "d=2020-13-01", "d=2020-00-10", "d=2020-4294967297-01", "d=2020-12-31 23:59:59", "d=2020-12-31 24:00:00", "d=2020-01-01 00:00:60", "d=2020-06-31",
        "t=[  padded  ]", "t=[]", "t=[\tx ]", "t=[inner  space]",
        "a,5,c", "a,,c", ",9223372036854775807", "one", "a, 5 ,c", "a,b,c,d,e", "p,q,r", "2020/02/29", "2020/13/01/x", "2021/2/3",
        "at 2020-05-06T07:08:09.5", "at 2020-05-06T07:08:09.123", "at 2020-05-06T07:08:09.999", "at 2020-05-06T07:08:09.1000", "at 2020-05-06T07:08:09.123456", "at 2020-05-06T07:08:09.999999",
        "at 2020-05-06T07:08:09.1000000", "at 2020-05-06T07:08:09.987654321", "at 2020-05-06T07:08:09.4294967297", "at 2020-02-30T07:08:09.1",
        "i=1:2:3", "i=01:02:03:24", "i=10:20:30:40:50:60", "i=01:02:03:", "i=1:2", "i=:1:2", "i=25:61:61", "i=x:1:2", "i=0:0:0",
        "u=ann n=1 r=1 t=[x]", "d=2021-06-01 at 2020-05-06T17:45:09.5", "d=2021-06-01 17:45:09 at 2020-05-06T01:02:03.5", "retries=3;timeout,4", "y=2020 q=5", "y=2020 m=3 q=5", "y=2020 m=13 q=5", "y=2020 m=sept q=5", "y=2020 m=sep7 q=5",
        "on 5 Mar 2020", "on 5 Marker 2020", "on 5 Junk 2021", "on 31 dec 1999", "on 1 Decoder 2020", "on 9 Sept 2020", "on 9 September 2020", "on 7 MAY 2020", "on 7 Maybe 2020",
    ];
    let cols = columns();
    for (ci, c) in cols.iter().enumerate() {
        let def = definition(c.def);
        for (li, line) in lines.iter().enumerate() {
            let (def, line, value) = (def.clone(), line.to_string(), c.value);
            g.case(&format!("col{}-line{}", ci, li), move || {
                let want = value(&line);
                match q(&def, "SELECT v FROM t", &[&line]) {
                    Outcome::Lines(rows, _) => {
                        if rows.len() != 1 { return Err(format!("{} on the line {:?}: one row expected (the anchor column has a DEFAULT), printed {:?}", def, line, rows)); }
                        let got: J = serde_json::from_str(&rows[0]).map_err(|e| format!("{:?}: {}", rows[0], e))?;
                        if num_eq(&got["v"], &want) { Ok(()) } else { Err(format!("{} on the line {:?}: the column holds {}, the referenced group typed is {}", def, line, got["v"], want)) }
                    }
                    other => Err(format!("{} on the line {:?}: {:?}", def, line, other)),
                }
            });
        }
        // all lines in one file: the same values, line by line (nothing is taken from another line)
        let (def, value, lines2) = (def.clone(), c.value, lines.clone());
        g.case(&format!("col{}-all-lines", ci), move || {
            match q(&def, "SELECT v FROM t", &lines2) {
                Outcome::Lines(rows, _) => {
                    if rows.len() != lines2.len() { return Err(format!("{}: {} rows for {} lines", def, rows.len(), lines2.len())); }
                    for (row, line) in rows.iter().zip(lines2.iter()) {
                        let got: J = serde_json::from_str(row).unwrap();
                        if !num_eq(&got["v"], &value(line)) { return Err(format!("{} in a file of all lines: the row of {:?} holds {}, the referenced group typed is {}", def, line, got["v"], value(line))); }
                    }
                    Ok(())
                }
                other => Err(format!("{}: {:?}", def, other)),
            }
        });
    }
    // a line that matches none of the table's patterns: every column gets its DEFAULT or NULL (and the line is a row if a DEFAULT is there)
    {
        let def = "CREATE TABLE t(line = '^u=(\\\\w+) n=([0-9]+)$', other = 'zzz=(\\\\d+)', line[1] => u TEXT DEFAULT 'nobody', line[2] => n INT, other[1] => z INT DEFAULT 7, line[2] => m INT DEFAULT 0);";
        for (i, (line, want)) in [("u=ann n=5", r#"{"u":"ann","n":5,"z":7,"m":5}"#), ("nothing matches", r#"{"u":"nobody","n":null,"z":7,"m":0}"#), ("", r#"{"u":"nobody","n":null,"z":7,"m":0}"#),
                                  ("zzz=3", r#"{"u":"nobody","n":null,"z":3,"m":0}"#), ("u=bob n=", r#"{"u":"nobody","n":null,"z":7,"m":0}"#)].iter().enumerate() {
            g.case(&format!("unmatched-line-defaults-{}", i), move || match q(def, "SELECT * FROM t", &[line]) {
                Outcome::Lines(l, _) => if l == vec![want.to_string()] { Ok(()) } else { Err(format!("{} on the line {:?} printed {:?}, expected {}", def, line, l, want)) },
                other => Err(format!("{:?}", other)) });
        }
    }
    g.done();
}
