// Shared data universe for the query-level grids (C05..C08, C11, C15, C19).  JSON output: one record per row, values exact.
use sqlgrep::executor::{OutputFormat, OutputPrinter};
use sqlgrep::execution::execution_engine::ExecutionConfig;

pub const T: &str = "CREATE TABLE t(line = '^k=(\\\\w+) v=(-?[0-9]*)$', line[1] => k TEXT, line[2] => v INT);";
/// the same table with a NOT NULL column: `k=b v=` is then not admitted
pub const T_NN: &str = "CREATE TABLE t(line = '^k=(\\\\w+) v=(-?[0-9]*)$', line[1] => k TEXT, line[2] => v INT NOT NULL);";

/// admitted by T
pub const POOL: [&str; 6] = ["k=a v=1", "k=a v=2", "k=b v=1", "k=b v=", "k=a v=-3", "k=c v=7"];
/// admitted by no table here: no column obtains a value
pub const NOISE: [&str; 4] = ["", "garbage", "k= v=1", "K=a v=1 "];

pub fn json_opts() -> DisplayOptions { DisplayOptions { output_format: OutputFormat::Json, single_result: true, print_result: true } }

pub fn join_lines(lines: &[&str]) -> Vec<u8> { let mut s = String::new(); for l in lines { s.push_str(l); s.push('\n'); } s.into_bytes() }

/// batch run over one file holding these lines; printed records (JSON), or the error
pub fn q(definition: &str, query: &str, lines: &[&str]) -> Outcome { run_opts(definition, query, &[join_lines(lines)], json_opts()) }
pub fn q_files(definition: &str, query: &str, files: &[Vec<&str>]) -> Outcome {
    run_opts(definition, query, &files.iter().map(|f| join_lines(f)).collect::<Vec<_>>(), json_opts())
}

/// all sequences over `pool` of length 0..=max
pub fn sequences<'a>(pool: &[&'a str], max: usize) -> Vec<Vec<&'a str>> {
    let mut out: Vec<Vec<&'a str>> = vec![Vec::new()];
    let mut last: Vec<Vec<&'a str>> = vec![Vec::new()];
    for _ in 0..max {
        let mut next = Vec::new();
        for s in &last { for p in pool { let mut s2 = s.clone(); s2.push(*p); next.push(s2); } }
        out.extend(next.iter().cloned());
        last = next;
    }
    out
}

pub const PLAIN: [&str; 5] = [
    "SELECT k, v FROM t",
    "SELECT * FROM t WHERE v >= 1",
    "SELECT v + 1 AS w, k FROM t WHERE k != 'c'",
    "SELECT k FROM t WHERE v IS NULL",
    "SELECT input FROM t",
];
pub const PLAIN_DISTINCT: [&str; 3] = ["SELECT DISTINCT k FROM t", "SELECT DISTINCT k, v FROM t", "SELECT DISTINCT v FROM t WHERE k != 'c'"];
pub const AGGREGATE: [&str; 6] = [
    "SELECT k, COUNT(*) AS n, SUM(v) AS s, MIN(v) AS lo, MAX(v) AS hi FROM t GROUP BY k",
    "SELECT COUNT(v) AS n, AVG(v) AS a FROM t",
    "SELECT k, COUNT(*) AS n FROM t GROUP BY k HAVING COUNT(*) > 1",
    "SELECT DISTINCT COUNT(*) AS n FROM t GROUP BY k",
    "SELECT v, COUNT(DISTINCT k) AS n FROM t WHERE v IS NOT NULL GROUP BY v",
    "SELECT k, MAX(v) + 1 AS top FROM t GROUP BY k HAVING MAX(v) >= 1",
];

/// what follow mode shows for each fed line (FollowFileExecutor: ExecutionEngine::execute(line, &ExecutionConfig::default()), the
/// returned table printed): Some(records) when something was shown for that line, None when nothing was
pub fn incremental(definition: &str, query: &str, lines: &[&str]) -> Result<Vec<Option<Vec<String>>>, String> {
    let tables = tables(definition)?;
    let statement = parsing::parse(query).map_err(|e| format!("{}", e))?;
    let mut engine = ExecutionEngine::with_executed_joined_table(&tables, &statement).map_err(|e| format!("{}", e))?;
    let mut shown = Vec::new();
    for line in lines {
        let output = engine.execute(line.to_string(), &ExecutionConfig::default()).map_err(|e| format!("error at line {:?}: {}", line, e))?;
        match output.result_row {
            Some(row) => {
                let mut printer = OutputPrinter::with_printer(Captured { lines: Vec::new() }, OutputFormat::Json);
                printer.print(&row, true);
                shown.push(Some(printer.printer().lines.clone()));
            }
            None => shown.push(None),
        }
        if output.reached_limit { break; }
    }
    Ok(shown)
}
