// Complete finite check + bounded stand-in for C13 (expressions group by standard SQL precedence and associativity).
#![allow(dead_code, unused_imports)]
// Oracle (from the statement): an expression parses to the same statement as its fully parenthesised form under: cast /
// subscript / qualified name (tightest), unary minus, * /, + -, comparisons with IS and IN, NOT, AND, OR; binary operators
// left-associative.  The reference parenthesiser below is a textbook precedence climber over that table (written here, not
// taken from the parser).  Grid: every pair and every triple of the 12 binary operators between plain operands (1,872 cases);
// IS [NOT] NULL / [NOT] IN after and before every operator; NOT and unary minus in front of every operator pair position;
// cast / subscript / qualified operands (also chained: a cast that is subscripted, two subscripts, two casts) on either side of every operator; negative literals after every operator;
// parenthesised operands (also in the middle of every operator pair); line breaks between an operator and a unary minus;
// IN with one element; IS / IS NOT with a general right operand before and after every operator and with cast / subscript / qualified / negated operands.
// Also: [NOT] IN lists of one element inside larger expressions.
// Also: 31 expressions with function arguments (list elements that start with a literal and go on with a cast / IS / IN / AND / subscript; array literals in parentheses),, CASE branches, IN lists, subscripts, casts and operator chains.
include!("verif_grid_common.rs");
include!("verif_grid_qcommon.rs");

const BIN: [(&str, i32); 12] = [("*", 6), ("/", 6), ("+", 5), ("-", 5), ("=", 4), ("!=", 4), ("<", 4), ("<=", 4), (">", 4), (">=", 4), ("AND", 2), ("OR", 1)];

/// fully parenthesised form of operand op operand op ... (left-associative precedence climbing)
fn paren(operands: &[String], ops: &[(&str, i32)]) -> String {
    fn climb(operands: &[String], ops: &[(&str, i32)], pos: &mut usize, min: i32) -> String {
        let mut lhs = operands[*pos].clone();
        while *pos < ops.len() && ops[*pos].1 >= min {
            let (op, p) = ops[*pos];
            *pos += 1;
            let rhs = climb(operands, ops, pos, p + 1);
            lhs = format!("({} {} {})", lhs, op, rhs);
        }
        lhs
    }
    let mut pos = 0;
    climb(operands, ops, &mut pos, 0)
}

fn same(expr: &str, reference: &str) -> Result<(), String> {
    let a = parsing::parse(&format!("SELECT {} AS x FROM t", expr));
    let b = parsing::parse(&format!("SELECT {} AS x FROM t", reference));
    match (a, b) {
        (Ok(x), Ok(y)) => if format!("{:?}", x) == format!("{:?}", y) { Ok(()) } else { Err(format!("`{}` does not mean `{}`: it parses to {:?}", expr, reference, x)) },
        (Err(e), Ok(_)) => Err(format!("`{}` is rejected ({}), its parenthesised form `{}` is accepted", expr, e, reference)),
        (_, Err(e)) => Err(format!("reference form `{}` is rejected: {}", reference, e)),
    }
}

#[test]
fn verif_grid() {
    let mut g = Grid::new("c13");
    let names = ["a", "b", "c", "d"];
    let ops_of = |ids: &[usize]| ids.iter().map(|i| BIN[*i]).collect::<Vec<_>>();
    for i in 0..12 { for j in 0..12 {
        let ops = ops_of(&[i, j]);
        let operands: Vec<String> = names[..3].iter().map(|s| s.to_string()).collect();
        let expr = format!("a {} b {} c", ops[0].0, ops[1].0);
        let reference = paren(&operands, &ops);
        g.case(&format!("pair-{}-{}", i, j), move || same(&expr, &reference));
        for k in 0..12 {
            let ops = ops_of(&[i, j, k]);
            let operands: Vec<String> = names.iter().map(|s| s.to_string()).collect();
            let expr = format!("a {} b {} c {} d", ops[0].0, ops[1].0, ops[2].0);
            let reference = paren(&operands, &ops);
            g.case(&format!("triple-{}-{}-{}", i, j, k), move || same(&expr, &reference));
        }
    } }
    // postfix-like comparisons: IS [NOT] NULL, [NOT] IN (...) are at the comparison level
    for (pi, post) in ["IS NULL", "IS NOT NULL", "IN (1, 2)", "NOT IN (1, 2)", "IN (1)"].iter().enumerate() {
        for (i, (op, p)) in BIN.iter().enumerate() {
            let (expr, reference) = (format!("a {} b {}", op, post), if *p >= 4 { format!("((a {} b) {})", op, post) } else { format!("(a {} (b {}))", op, post) });
            g.case(&format!("postfix-after-{}-{}", pi, i), move || same(&expr, &reference));
            if *p <= 4 {
                let (expr, reference) = (format!("a {} {} b", post, op), format!("((a {}) {} b)", post, op));
                g.case(&format!("postfix-before-{}-{}", pi, i), move || same(&expr, &reference));
            }
        }
    }
    // IS / IS NOT with a general right operand are binary operators of the comparison level (left-associative)
    for (oi, is) in ["IS", "IS NOT"].iter().enumerate() {
        for (i, (op, p)) in BIN.iter().enumerate() {
            let (expr, reference) = (format!("a {} b {} c", is, op), if *p > 4 { format!("(a {} (b {} c))", is, op) } else { format!("((a {} b) {} c)", is, op) });
            g.case(&format!("is-operand-before-{}-{}", oi, i), move || same(&expr, &reference));
            let (expr, reference) = (format!("a {} b {} c", op, is), if *p >= 4 { format!("((a {} b) {} c)", op, is) } else { format!("(a {} (b {} c))", op, is) });
            g.case(&format!("is-operand-after-{}-{}", oi, i), move || same(&expr, &reference));
        }
        for (ti, tight) in ["b::int", "xs[1]", "t.b", "-b", "b::text::int", "xs[1][2]", "(b)", "-b::int"].iter().enumerate() {
            let (expr, reference) = (format!("a {} {}", is, tight), format!("(a {} ({}))", is, tight));
            g.case(&format!("is-operand-tight-{}-{}", oi, ti), move || same(&expr, &reference));
            let (expr, reference) = (format!("a {} {} AND c", is, tight), format!("((a {} ({})) AND c)", is, tight));
            g.case(&format!("is-operand-tight-and-{}-{}", oi, ti), move || same(&expr, &reference));
        }
    }
    // NOT: weaker than comparisons, stronger than AND / OR
    for (i, (op, p)) in BIN.iter().enumerate() {
        let (expr, reference) = (format!("NOT a {} b", op), if *p > 3 { format!("(NOT (a {} b))", op) } else { format!("((NOT a) {} b)", op) });
        g.case(&format!("not-{}", i), move || same(&expr, &reference));
        let (expr, reference) = (format!("c AND NOT a {} b", op), if *p > 3 { format!("(c AND (NOT (a {} b)))", op) } else if *p == 2 { format!("((c AND (NOT a)) {} b)", op) } else { format!("((c AND (NOT a)) {} b)", op) });
        g.case(&format!("not-after-and-{}", i), move || same(&expr, &reference));
    }
    g.case("not-is-null", || same("NOT a IS NULL", "(NOT (a IS NULL))"));
    g.case("not-in", || same("NOT a IN (1, 2)", "(NOT (a IN (1, 2)))"));
    // unary minus: tighter than every binary operator, weaker than cast / subscript / qualified name
    for (i, (op, _)) in BIN.iter().enumerate() {
        let (expr, reference) = (format!("-a {} b", op), format!("((-a) {} b)", op));
        g.case(&format!("minus-left-{}", i), move || same(&expr, &reference));
        let (expr, reference) = (format!("a {} -b", op), format!("(a {} (-b))", op));
        g.case(&format!("minus-right-{}", i), move || same(&expr, &reference));
        let (expr, reference) = (format!("a {} -1", op), format!("(a {} (-1))", op));
        g.case(&format!("negative-literal-{}", i), move || same(&expr, &reference));
        let (expr, reference) = (format!("a {} - 1 {} c", op, op), paren(&["a".to_owned(), "(-1)".to_owned(), "c".to_owned()], &[BIN[i], BIN[i]]));
        g.case(&format!("negative-literal-spaced-{}", i), move || same(&expr, &reference));
        // cast, subscript, qualified names on either side
        for (ti, (tight, tref)) in [("b::real", "(b::real)"), ("b[1]", "(b[1])"), ("t.b", "(t.b)"), ("b[1]::real", "((b[1])::real)"), ("t.b[2]", "((t.b)[2])"),
                                      ("b::text[1]", "((b::text)[1])"), ("b[1][2]", "((b[1])[2])"), ("b::int::real", "((b::int)::real)"), ("t.b::text[2]", "(((t.b)::text)[2])")].iter().enumerate() {
            let (expr, reference) = (format!("a {} {}", op, tight), format!("(a {} {})", op, tref));
            g.case(&format!("tight-right-{}-{}", ti, i), move || same(&expr, &reference));
            let (expr, reference) = (format!("{} {} a", tight, op), format!("({} {} a)", tref, op));
            g.case(&format!("tight-left-{}-{}", ti, i), move || same(&expr, &reference));
        }
    }
    g.case("minus-subscript", || same("-a[1]", "(-(a[1]))"));
    g.case("minus-cast", || same("-a::real", "(-(a::real))"));
    g.case("minus-qualified", || same("-t.a", "(-(t.a))"));
    g.case("x-plus-element", || same("x + a[1]", "(x + (a[1]))"));
    g.case("double-minus", || same("x - -1", "(x - (-1))"));
    g.case("or-and", || same("a OR b AND c", "(a OR (b AND c))"));
    g.case("not-eq", || same("NOT a = b", "(NOT (a = b))"));
    // a parenthesised sub-expression is accepted where an operand is, and adds nothing
    for (i, (op, _)) in BIN.iter().enumerate() {
        let (expr, reference) = (format!("(a) {} ((b))", op), format!("a {} b", op));
        g.case(&format!("paren-operands-{}", i), move || same(&expr, &reference));
        let (expr, reference) = (format!("(a {} b) {} (c {} d)", op, op, op), format!("((a {} b) {} (c {} d))", op, op, op));
        g.case(&format!("paren-groups-{}", i), move || same(&expr, &reference));
    }
    // a parenthesised operand in the middle behaves like a plain operand
    for i in 0..12 { for j in 0..12 {
        let ops = ops_of(&[i, j]);
        let expr = format!("a {} (b + c) {} d", ops[0].0, ops[1].0);
        let reference = paren(&["a".to_owned(), "(b + c)".to_owned(), "d".to_owned()], &ops);
        g.case(&format!("paren-middle-{}-{}", i, j), move || same(&expr, &reference));
    } }
    // operators on different lines are different tokens: a line break between an operator and a unary minus
    for (i, (op, _)) in BIN.iter().enumerate() {
        for (li, layout) in ["a {}\n-1", "a {}\n-b", "a {}   \n  -1", "a\n{}\n-1"].iter().enumerate() {
            let expr = layout.replace("{}", op);
            let reference = format!("(a {} (-{}))", op, if expr.ends_with('b') { "b" } else { "1" });
            g.case(&format!("line-break-{}-{}", li, i), move || same(&expr, &reference));
        }
    }
    for (i, (expr, reference)) in [("x NOT IN (5)", "(x NOT IN (5))"), ("y OR x + 1 NOT IN (a * 2)", "(y OR ((x + 1) NOT IN ((a * 2))))"), ("x IN (5) AND y", "((x IN (5)) AND y)"),
                                   ("NOT x NOT IN (1)", "(NOT (x NOT IN (1)))"), ("x NOT IN (-1)", "(x NOT IN ((-1)))"), ("x IN ((1))", "(x IN (1))"), ("x NOT IN (1, 2) OR y", "((x NOT IN (1, 2)) OR y)")].iter().enumerate() {
        g.case(&format!("in-lists-{}", i), move || same(expr, reference));
    }
    g.case("not-in-one-element-means-not-equals", || {
        let input = ["k=a v=1", "k=b v=2", "k=c v=", "k=d v=1"];
        let (x, y) = (q(T, "SELECT k FROM t WHERE v NOT IN (1)", &input), q(T, "SELECT k FROM t WHERE v != 1", &input));
        if x == y && x.lines().map(|l| l.len()) == Some(1) { Ok(()) } else { Err(format!("WHERE v NOT IN (1) gives {:?}, WHERE v != 1 gives {:?}", x, y)) }
    });
    // the same grouping inside function arguments, CASE branches, IN lists, subscripts and casts
    for (i, (expr, reference)) in [
        ("abs(a + b * c)", "abs((a + (b * c)))"), ("greatest(a + b * c, d - 1)", "greatest((a + (b * c)), (d - 1))"), ("abs(a) + b * c", "((abs(a)) + (b * c))"), ("-abs(a) * b", "((-(abs(a))) * b)"),
        ("length(s) = 3 AND x", "((length(s) = 3) AND x)"), ("CASE WHEN a OR b AND c THEN x + y * z ELSE -x END", "CASE WHEN (a OR (b AND c)) THEN (x + (y * z)) ELSE (-x) END"),
        ("CASE WHEN NOT a = b THEN 1 ELSE 2 END + 1", "((CASE WHEN (NOT (a = b)) THEN 1 ELSE 2 END) + 1)"), ("a IN (b + c * d, -1)", "(a IN (((b + (c * d))), (-1)))"),
        ("xs[a + b * c]", "(xs[(a + (b * c))])"), ("xs[1] * xs[2] + xs[3]", "(((xs[1]) * (xs[2])) + (xs[3]))"), ("a + b::real * c", "(a + ((b::real) * c))"), ("-xs[1]::real", "(-((xs[1])::real))"),
        ("EXTRACT(YEAR FROM ts) + 1 > 2020 AND b", "(((EXTRACT(YEAR FROM ts) + 1) > 2020) AND b)"), ("a = 1 OR b = 2 AND NOT c = 3 OR d IS NULL", "(((a = 1) OR ((b = 2) AND (NOT (c = 3)))) OR (d IS NULL))"),
        ("(array[a, b][1] + 1) * 2", "((((array[a, b])[1]) + 1) * 2)"), ("(array[a, b])[2]", "((array[a, b])[2])"), ("(array[a, b][1])", "((array[a, b])[1])"), ("x + (array[1, 2])[1]", "(x + ((array[1, 2])[1]))"),
        ("greatest(x, '7'::int)", "greatest(x, ('7'::int))"), ("x IN (y, '7'::int)", "(x IN (y, ('7'::int)))"), ("least(1 IS NULL, TRUE AND b)", "least((1 IS NULL), (TRUE AND b))"), ("greatest(1 + 2 * 3, 'a' = s)", "greatest((1 + (2 * 3)), ('a' = s))"),
        ("x IN (1 IN (2), 3)", "(x IN ((1 IN (2)), 3))"), ("greatest(xs[1], 5[1])", "greatest((xs[1]), (5[1]))"), ("least(2 OR c, 1.5 < d)", "least((2 OR c), (1.5 < d))"),
        ("a - b - c - d", "(((a - b) - c) - d)"), ("a / b / c * d", "(((a / b) / c) * d)"), ("a < b = c", "((a < b) = c)"), ("NOT NOT a = b", "(NOT (NOT (a = b)))"), ("- - a", "(-(-a))"), ("a - - - b", "(a - (-(-b)))"),
    ].iter().enumerate() {
        g.case(&format!("nested-{}", i), move || same(expr, reference));
    }
    g.case("in-one-element", || match parsing::parse("SELECT a FROM t WHERE a IN (1)") { Ok(_) => Ok(()), Err(e) => Err(format!("IN with a list of one element is rejected: {}", e)) });
    g.case("in-one-element-means-equals", || {
        let input = ["k=a v=1", "k=b v=2", "k=c v=", "k=d v=1"];
        let (x, y) = (q(T, "SELECT k FROM t WHERE v IN (1)", &input), q(T, "SELECT k FROM t WHERE v = 1", &input));
        if x == y && x.lines().map(|l| l.len()) == Some(2) { Ok(()) } else { Err(format!("WHERE v IN (1) gives {:?}, WHERE v = 1 gives {:?}", x, y)) }
    });
    g.done();
}
