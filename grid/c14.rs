// Bounded stand-in for C14 (parsing is total: any text yields a statement or a located error).
#![allow(dead_code, unused_imports)]
// Oracle (from the statement): parsing terminates without a panic with a statement or an error whose position lies inside
// the text (the position of some character offset 0..=len: line = line breaks before it, column = characters after the
// last line break) and whose 'near ...' excerpt can be produced.  A table definition with an invalid regular expression,
// an empty JSON path, a wrong number of aggregate arguments or a number out of range is rejected with an error.
// Grid: 16 valid statements (queries and table definitions, multi-line, non-ASCII text); every prefix of each; each with one
// token deleted / duplicated / swapped with its neighbour / replaced by one of 8 literals (0, 00, 1, -1, an empty text, NULL, 2^63, *); 3000 token soups and 1500 random Unicode strings from a fixed
// generator; bracket nesting to depth 200; the listed invalid definitions.
// Also: table definitions with several large bounded-repetition patterns.
include!("verif_grid_common.rs");

const VALID: [&str; 16] = [
    "SELECT * FROM t",
    "SELECT a, b + 1 AS c FROM t WHERE a >= 1 AND NOT b IS NULL LIMIT 3;",
    "SELECT DISTINCT k, COUNT(*) AS n, SUM(v) FROM t WHERE v != -1 GROUP BY k HAVING COUNT(*) > 1",
    "SELECT x FROM a INNER JOIN b::'file.log' ON a.x = b.y WHERE b.z IN (1, 2, 3)",
    "SELECT CASE WHEN a > 1 THEN 'big' WHEN a IS NULL THEN 'none' ELSE 'small' END AS size, a::real, arr[1] FROM t",
    "SELECT EXTRACT(EPOCH FROM ts), greatest(a, b), regexp_matches(s, 'x(.*)y') FROM t\nWHERE s = 'its' OR s = 'naïve – ünï'",
    "SELECT PERCENTILE(v, 0.5), STRING_AGG(s, ', '), ARRAY_AGG(v) FROM t -- comment\nGROUP BY k",
    "CREATE TABLE t(line = 'k=(\\\\w+) v=([0-9]+)', line[1] => k TEXT, line[2] => v INT NOT NULL);",
    "CREATE TABLE t(a = split ',', a[1] => x REAL DEFAULT 1.5, a[2] => y TEXT TRIM, a[3], a[4] => z INT[]);",
    "CREATE TABLE t('x=(.*)' => x TEXT, { .a.b[0] } => j INT CONVERT, { .c } => d BOOLEAN DEFAULT false);",
    "CREATE TABLE t(line = 'a', line[1], line[2], line[3] => ts TIMESTAMP MICROSECONDS);\nCREATE TABLE u(line = match 'b', line[1] => i INTERVAL);",
    "SELECT a FROM t WHERE (a + (b * (c - 1))) / 2 = -3 OR a NOT IN (1)",
    "SELECT now(), make_timestamp(2020, 1, 2, 3, 4, 5, 6), date_trunc('hour', ts) FROM t",
    "SELECT 9223372036854775807, -9223372036854775807, 0.000001, 'a\\\\b' FROM t",
    "SELECT a FROM t OUTER JOIN u::'f' ON t.a = u.b GROUP BY a",
    "SELECT\n  a,\n\tb\r\nFROM t\n\n",
];

/// a position inside the text: that of some character offset 0..=len
fn located(text: &str, line: usize, column: usize) -> bool {
    let (mut l, mut c) = (0usize, 0usize);
    if (l, c) == (line, column) { return true; }
    for ch in text.chars() {
        if ch == '\n' { l += 1; c = 0; } else { c += 1; }
        if (l, c) == (line, column) { return true; }
    }
    false
}

fn total(text: &str) -> Result<(), String> {
    match parsing::parse(text) {
        Ok(_) => Ok(()),
        Err(e) => {
            let loc = e.location();
            // the tokenizer reports a token by the position before it or just after it; both lie inside the text
            if !located(text, loc.line, loc.column) { return Err(format!("{:?}: the error `{}` is located at line {} column {}, which is not a position inside the text", text, e, loc.line, loc.column)); }
            let _near = loc.extract_near(text);
            Ok(())
        }
    }
}

struct Lcg(u64);
impl Lcg { fn next(&mut self) -> u64 { self.0 = self.0.wrapping_mul(6364136223846793005).wrapping_add(1442695040888963407); self.0 >> 33 } fn below(&mut self, n: usize) -> usize { (self.next() % n as u64) as usize } }

#[test]
fn verif_grid() {
    let mut g = Grid::new("c14");
    for (vi, v) in VALID.iter().enumerate() {
        g.case(&format!("valid-{}", vi), move || match parsing::parse(v) { Ok(_) => Ok(()), Err(e) => Err(format!("the valid statement {:?} is rejected: {}", v, e)) });
        let chars: Vec<char> = v.chars().collect();
        for n in 0..chars.len() {
            let prefix: String = chars[..n].iter().collect();
            g.case(&format!("prefix-{}-{}", vi, n), move || total(&prefix));
        }
        // tokens ~ maximal runs of word characters, or single other characters
        let mut tokens: Vec<String> = Vec::new();
        for ch in chars.iter() {
            let word = ch.is_alphanumeric() || *ch == '_';
            if word && tokens.last().map(|t| t.chars().all(|c| c.is_alphanumeric() || c == '_')).unwrap_or(false) { tokens.last_mut().unwrap().push(*ch); } else { tokens.push(ch.to_string()); }
        }
        for i in 0..tokens.len() {
            if tokens[i].trim().is_empty() { continue; }
            let mut deleted = tokens.clone(); deleted.remove(i);
            let mut duplicated = tokens.clone(); duplicated.insert(i, format!("{} ", tokens[i]));
            let (d1, d2) = (deleted.concat(), duplicated.concat());
            g.case(&format!("deleted-{}-{}", vi, i), move || total(&d1));
            g.case(&format!("duplicated-{}-{}", vi, i), move || total(&d2));
            for (k, literal) in ["0", "00", "1", "-1", "''", "NULL", "9223372036854775808", "*"].iter().enumerate() {
                let mut replaced = tokens.clone(); replaced[i] = literal.to_string();
                let d4 = replaced.concat();
                g.case(&format!("replaced-{}-{}-{}", vi, i, k), move || total(&d4));
            }
            if let Some(j) = (i + 1..tokens.len()).find(|j| !tokens[*j].trim().is_empty()) {
                let mut swapped = tokens.clone(); swapped.swap(i, j);
                let d3 = swapped.concat();
                g.case(&format!("swapped-{}-{}", vi, i), move || total(&d3));
            }
        }
    }
    let vocabulary = ["SELECT", "FROM", "WHERE", "GROUP", "BY", "HAVING", "LIMIT", "JOIN", "INNER", "OUTER", "ON", "AS", "AND", "OR", "NOT", "IS", "NULL", "IN", "CASE", "WHEN", "THEN", "ELSE", "END",
        "CREATE", "TABLE", "DISTINCT", "EXTRACT", "DEFAULT", "TRIM", "true", "false", "a", "b", "t", "x1", "COUNT", "sum", "1", "0", "-1", "2.5", "9223372036854775808", "1e999", "'s'", "'", "\"", "(", ")", "[", "]", "{", "}",
        ",", ";", ".", "::", "=>", "=", "!=", "<", "<=", ">", ">=", "+", "-", "*", "/", "^", "!", "%", "--", "\n", " ", "\t", "é", "日本", "\u{1F600}", "\u{0}", "\\", "int", "TEXT", "\u{130}", "\u{212a}", "array", "array[", "[]", "\u{df}", "\u{1e9e}"];
    let mut rng = Lcg(20240917);
    for i in 0..3000 {
        let n = 1 + rng.below(12);
        let text = (0..n).map(|_| vocabulary[rng.below(vocabulary.len())]).collect::<Vec<_>>().join(if rng.below(3) == 0 { "" } else { " " });
        g.case(&format!("soup-{}", i), move || total(&text));
    }
    for i in 0..1500 {
        let n = rng.below(40);
        let text: String = (0..n).map(|_| { let r = rng.below(6); match r { 0 => (32 + rng.below(95) as u8) as char, 1 => char::from_u32(0xa0 + rng.below(0x500) as u32).unwrap_or('x'),
            2 => char::from_u32(0x4e00 + rng.below(0x2000) as u32).unwrap_or('x'), 3 => char::from_u32(0x1F300 + rng.below(0x300) as u32).unwrap_or('x'), 4 => ['\n', '\r', '\t', '\'', '"', '\\'][rng.below(6)], _ => (rng.below(32) as u8) as char } }).collect();
        g.case(&format!("unicode-{}", i), move || total(&text));
    }
    for depth in [1usize, 2, 10, 50, 100, 200] {
        let a = format!("SELECT {}1{} FROM t", "(".repeat(depth), ")".repeat(depth));
        let b = format!("SELECT {}1 FROM t", "(".repeat(depth));
        let c = format!("SELECT a{} FROM t", "[1]".repeat(depth));
        let d = format!("SELECT {} a FROM t", "NOT ".repeat(depth));
        let e = format!("SELECT {}a FROM t", "-".repeat(depth));
        for (k, text) in [a, b, c, d, e].into_iter().enumerate() { g.case(&format!("nesting-{}-{}", depth, k), move || total(&text)); }
    }
    // patterns that are each a regular expression, alone and several in one table; very large ones are an error at most
    for (i, text) in ["CREATE TABLE t(a = '(\\\\w{1,100})', b = '(\\\\w{1,100}) x', c = '(\\\\w{1,100}) y', a[1] => x TEXT, b[1] => y TEXT, c[1] => z TEXT);",
                      "CREATE TABLE t(a = '(\\\\w{150})', b = '(\\\\w{150})z', a[1] => x TEXT, b[1] => y TEXT);",
                      "CREATE TABLE t(a = '(\\\\w{1000})', a[1] => x TEXT);", "CREATE TABLE t(a = '((((a{10}){10}){10}){10})', a[1] => x TEXT);", "CREATE TABLE t(a = 'a{999999999}', a[0] => x TEXT);",
                      "CREATE TABLE t(a = '(?i)[\\\\p{L}\\\\p{N}]{1,50}', b = '[\\\\p{L}]{60}', c = '\\\\pL{70}', a[0] => x TEXT);"].iter().enumerate() {
        g.case(&format!("large-patterns-{}", i), move || total(text));
    }
    for (i, text) in ["CREATE TABLE t(a = 'x', a[1] => x \u{130}[]);", "CREATE TABLE t(a = 'x', a[1] => x \u{212a}\u{212a}[]);", "CREATE TABLE t(a = 'x', a[1] => x \u{130}NT);", "CREATE TABLE t(a = 'x', a[1] => x TEXT[][]);",
                      "CREATE TABLE t(a = 'x', a[1] => x \u{df}[] TRIM);", "SELECT a::\u{130}[] FROM t", "SELECT array[] FROM t", "SELECT array[NULL] FROM t", "SELECT array_cat(array[1], array[]) FROM t", "SELECT array[1, 'x', NULL, 2.5] FROM t",
                      "SELECT array[array[1], array[]] FROM t", "SELECT array[1][1] FROM t", "SELECT array FROM t", "SELECT array[ FROM t"].iter().enumerate() {
        g.case(&format!("odd-types-and-arrays-{}", i), move || total(text));
    }
    // rejected with an error, not a crash and not accepted
    for (i, text) in ["CREATE TABLE t(line = '(unclosed', line[1] => x TEXT);", "CREATE TABLE t({ } => x INT);", "SELECT SUM(a, b) FROM t", "SELECT COUNT(a, b, c) FROM t",
                      "SELECT PERCENTILE(a) FROM t", "SELECT STRING_AGG(a) FROM t", "SELECT 99999999999999999999 FROM t", "SELECT a FROM t LIMIT 99999999999999999999",
                      "CREATE TABLE t(line = 'a', line[99999999999999999999] => x INT);"].iter().enumerate() {
        g.case(&format!("rejected-{}", i), move || { total(text)?; match parsing::parse(text) { Err(_) => Ok(()), Ok(_) => Err(format!("{:?} is accepted; the statement says it is rejected with an error", text)) } });
    }
    g.done();
}
