// Bounded stand-in for C04 (GROUP BY: one row per group, every aggregate computed from that group's rows).
#![allow(dead_code, unused_imports)]
// Oracle (from the statement, computed here from the rows written into the file): one row per distinct key among the rows
// that pass WHERE (one row without GROUP BY if a row passed), ascending key order with NULL first; COUNT(*) the number of
// rows, COUNT(c) the non-NULL ones, COUNT(DISTINCT c) the distinct non-NULL values, SUM / MIN / MAX / AVG / BOOL_AND /
// BOOL_OR / STRING_AGG over the non-NULL values (NULL if none), ARRAY_AGG the values in arrival order, an arithmetic wrapper
// applied to the aggregate's value, HAVING on the group's own key and aggregates.
// Grid: every sequence of up to 3 rows and a sample of those of 4 and 5 over a 7-row pool (NULL keys, NULL arguments, a group
// whose argument is NULL on every row, TEXT arguments) x 14 statement shapes (HAVING over aggregates that are and are not in the select list, in either order).  Every statement has COUNT(*): the groups of
// the two known findings (no cell at all) do not occur here.
// Also: STDDEV / VARIANCE / PERCENTILE through relations that hold for any definition (variance = deviation squared, zero
// exactly for equal values, shift invariance, scaling, percentiles monotone in p, between MIN and MAX, 0.0 / 1.0 = MIN / MAX, the
// median of an odd count is the middle value) over sequences of 2..4 of 7 values.
include!("verif_grid_common.rs");
include!("verif_grid_qcommon.rs");
use serde_json::{json, Value as J};

const DEF: &str = "CREATE TABLE t(line = '^(?:k=(\\\\w+) )?v=(-?[0-9]*)(?: s=(\\\\w+))?$', line[1] => k TEXT, line[2] => v INT, line[3] => s TEXT);";
type Row = (Option<&'static str>, Option<i64>, Option<&'static str>);
const ROWS: [(&str, Row); 7] = [
    ("k=a v=1 s=x", (Some("a"), Some(1), Some("x"))), ("k=a v=2 s=y", (Some("a"), Some(2), Some("y"))), ("k=b v=1", (Some("b"), Some(1), None)),
    ("k=b v= s=z", (Some("b"), None, Some("z"))), ("v=5 s=x", (None, Some(5), Some("x"))), ("k=c v=", (Some("c"), None, None)), ("k=a v=-3 s=x", (Some("a"), Some(-3), Some("x"))),
];

fn jopt<T: Into<J>>(v: Option<T>) -> J { match v { Some(x) => x.into(), None => J::Null } }
fn num_eq(a: &J, b: &J) -> bool {
    match (a, b) {
        (J::Number(x), J::Number(y)) => x.as_f64() == y.as_f64() && (x.is_f64() == y.is_f64() || true),
        (J::Array(x), J::Array(y)) => x.len() == y.len() && x.iter().zip(y.iter()).all(|(p, q)| num_eq(p, q)),
        (J::Object(x), J::Object(y)) => x.len() == y.len() && x.iter().zip(y.iter()).all(|((k1, v1), (k2, v2))| k1 == k2 && num_eq(v1, v2)),
        _ => a == b,
    }
}

/// groups in ascending key order, NULL first (Option's order: None < Some, &str by code point)
fn groups<K: Ord + Clone>(rows: &[Row], key: impl Fn(&Row) -> K) -> Vec<(K, Vec<Row>)> {
    let mut m: std::collections::BTreeMap<K, Vec<Row>> = std::collections::BTreeMap::new();
    for r in rows { m.entry(key(r)).or_insert_with(Vec::new).push(*r); }
    m.into_iter().collect()
}
fn vs(g: &[Row]) -> Vec<i64> { g.iter().filter_map(|r| r.1).collect() }
fn ss(g: &[Row]) -> Vec<&'static str> { g.iter().filter_map(|r| r.2).collect() }
fn sum(g: &[Row]) -> J { let v = vs(g); if v.is_empty() { J::Null } else { json!(v.iter().sum::<i64>()) } }
fn distinct(g: &[Row]) -> usize { let mut v = vs(g); v.sort(); v.dedup(); v.len() }

fn expected(shape: usize, rows: &[Row]) -> Vec<J> {
    match shape {
        0 => groups(rows, |r| r.0).into_iter().map(|(k, g)| json!({"k": jopt(k), "n": g.len(), "c": vs(&g).len(), "d": distinct(&g), "su": sum(&g), "lo": jopt(vs(&g).into_iter().min()), "hi": jopt(vs(&g).into_iter().max())})).collect(),
        1 => groups(rows, |r| r.0).into_iter().map(|(k, g)| { let v = vs(&g); let s = ss(&g);
                // (AVG of an INT argument is typed INT in this engine: the quotient of sum and count)
                json!({"k": jopt(k), "n": g.len(), "a": if v.is_empty() { J::Null } else { json!(v.iter().sum::<i64>() / v.len() as i64) },
                       "smin": jopt(s.iter().min().cloned()), "smax": jopt(s.iter().max().cloned()), "joined": if s.is_empty() { J::Null } else { json!(s.join("+")) }}) }).collect(),
        2 => if rows.is_empty() { vec![] } else { vec![json!({"n": rows.len(), "su": sum(rows), "top": jopt(vs(rows).into_iter().max().map(|m| m + 1))})] },
        3 => { let passed: Vec<Row> = rows.iter().cloned().filter(|r| r.1.is_some()).collect();
               groups(&passed, |r| r.0).into_iter().filter(|(_, g)| vs(g).iter().sum::<i64>() > 0).map(|(k, g)| json!({"k": jopt(k), "n": g.len()})).collect() },
        4 => groups(rows, |r| r.0).into_iter().map(|(k, g)| json!({"su": sum(&g), "k": jopt(k), "n": g.len()})).collect(),
        5 => groups(rows, |r| (r.0, r.2)).into_iter().map(|((k, s), g)| json!({"k": jopt(k), "s": jopt(s), "n": g.len(), "hi": jopt(vs(&g).into_iter().max())})).collect(),
        6 => groups(rows, |r| r.0).into_iter().map(|(k, g)| { let v = vs(&g);
                // (the argument `v > 0` is false, not NULL, on a row whose v is NULL: a comparison with NULL is false)
                json!({"k": jopt(k), "n": g.len(), "every": json!(g.iter().all(|r| r.1.map(|x| x > 0).unwrap_or(false))), "some": json!(g.iter().any(|r| r.1.map(|x| x > 1).unwrap_or(false))),
                       "p0": jopt(v.iter().min().cloned()), "p1": jopt(v.iter().max().cloned())}) }).collect(),
        9 => groups(rows, |r| r.0).into_iter().filter(|(_, g)| g.len() > 1 && vs(g).into_iter().max().map(|m| m > 1).unwrap_or(false)).map(|(k, g)| json!({"k": jopt(k), "n": g.len()})).collect(),
        10 => groups(rows, |r| r.0).into_iter().filter(|(_, g)| vs(g).into_iter().max().map(|m| m > 1).unwrap_or(false) && g.len() > 1).map(|(k, g)| json!({"k": jopt(k), "n": g.len(), "lo": jopt(vs(&g).into_iter().min())})).collect(),
        11 => groups(rows, |r| r.0).into_iter().filter(|(_, g)| vs(g).len() >= 1 && vs(g).iter().sum::<i64>() < 3 && ss(g).len() <= 1).map(|(k, g)| json!({"k": jopt(k), "su": sum(&g)})).collect(),
        12 => groups(rows, |r| r.0).into_iter().filter(|(_, g)| vs(g).into_iter().max().map(|m| m >= 2).unwrap_or(false)).map(|(k, g)| json!({"k": jopt(k), "n": g.len()})).collect(),
        13 => groups(rows, |r| r.0).into_iter().filter(|(_, g)| vs(g).into_iter().min().map(|m| m < 2).unwrap_or(false) && ss(g).into_iter().max().map(|m| m >= "x").unwrap_or(false)).map(|(k, g)| json!({"k": jopt(k), "su": sum(&g)})).collect(),
        8 => { let passed: Vec<Row> = rows.iter().cloned().filter(|r| r.1.is_some()).collect();
               groups(&passed, |r| r.0).into_iter().map(|(k, g)| json!({"k": jopt(k), "n": g.len(), "vs": J::Array(g.iter().map(|r| jopt(r.1)).collect())})).collect() },
        _ => groups(rows, |r| r.1).into_iter().map(|(v, g)| json!({"v": jopt(v), "n": g.len(), "first": jopt(g.iter().filter_map(|r| r.0).min()), "keys": distinct_keys(&g)})).collect(),
    }
}
fn distinct_keys(g: &[Row]) -> usize { let mut k: Vec<&str> = g.iter().filter_map(|r| r.0).collect(); k.sort(); k.dedup(); k.len() }

const STATEMENTS: [&str; 14] = [
    "SELECT k, COUNT(*) AS n, COUNT(v) AS c, COUNT(DISTINCT v) AS d, SUM(v) AS su, MIN(v) AS lo, MAX(v) AS hi FROM t GROUP BY k",
    "SELECT k, COUNT(*) AS n, AVG(v) AS a, MIN(s) AS smin, MAX(s) AS smax, STRING_AGG(s, '+') AS joined FROM t GROUP BY k",
    "SELECT COUNT(*) AS n, SUM(v) AS su, MAX(v) + 1 AS top FROM t",
    "SELECT k, COUNT(*) AS n FROM t WHERE v IS NOT NULL GROUP BY k HAVING SUM(v) > 0",
    "SELECT SUM(v) AS su, k, COUNT(*) AS n FROM t GROUP BY k",
    "SELECT k, s, COUNT(*) AS n, MAX(v) AS hi FROM t GROUP BY k, s",
    "SELECT k, COUNT(*) AS n, BOOL_AND(v > 0) AS every, BOOL_OR(v > 1) AS some, PERCENTILE(v, 0.0) AS p0, PERCENTILE(v, 1.0) AS p1 FROM t GROUP BY k",
    "SELECT v, COUNT(*) AS n, MIN(k) AS first, COUNT(DISTINCT k) AS keys FROM t GROUP BY v",
    "SELECT k, COUNT(*) AS n, ARRAY_AGG(v) AS vs FROM t WHERE v IS NOT NULL GROUP BY k",
    "SELECT k, COUNT(*) AS n FROM t GROUP BY k HAVING COUNT(*) > 1 AND MAX(v) > 1",
    "SELECT k, COUNT(*) AS n, MIN(v) AS lo FROM t GROUP BY k HAVING MAX(v) > 1 AND COUNT(*) > 1",
    "SELECT k, SUM(v) AS su FROM t GROUP BY k HAVING COUNT(v) >= 1 AND SUM(v) < 3 AND COUNT(s) <= 1",
    "SELECT k, COUNT(*) AS n FROM t GROUP BY k HAVING PERCENTILE(v, 1.0) >= 2",
    "SELECT k, SUM(v) AS su FROM t GROUP BY k HAVING PERCENTILE(v, 0.0) < 2 AND MAX(s) >= 'x'",
];

#[test]
fn verif_grid() {
    let mut g = Grid::new("c04");
    let idx: Vec<String> = (0..ROWS.len()).map(|i| i.to_string()).collect();
    let idx_refs: Vec<&str> = idx.iter().map(|s| s.as_str()).collect();
    for (bi, seq) in sequences(&idx_refs, 5).into_iter().enumerate() {
        if seq.len() == 4 && left_out(bi, 9) { continue; }
        if seq.len() == 5 && left_out(bi, 97) { continue; }
        let ids: Vec<usize> = seq.iter().map(|s| s.parse().unwrap()).collect();
        for shape in 0..STATEMENTS.len() {
            if ids.len() >= 3 && left_out(bi + shape, 2) { continue; }
            let ids = ids.clone();
            g.case(&format!("b{}-s{}", bi, shape), move || {
                let lines: Vec<&str> = ids.iter().map(|i| ROWS[*i].0).collect();
                let rows: Vec<Row> = ids.iter().map(|i| ROWS[*i].1).collect();
                let want = expected(shape, &rows);
                match q(DEF, STATEMENTS[shape], &lines) {
                    Outcome::Lines(printed, _) => {
                        let got: Vec<J> = printed.iter().map(|r| serde_json::from_str(r).unwrap()).collect();
                        if got.len() == want.len() && got.iter().zip(want.iter()).all(|(a, b)| num_eq(a, b)) { Ok(()) }
                        else { Err(format!("{} over {:?} printed {:?}; computed from the rows of each group: {:?}", STATEMENTS[shape], lines, printed, want.iter().map(|w| w.to_string()).collect::<Vec<_>>())) }
                    }
                    other => Err(format!("{} over {:?}: {:?}", STATEMENTS[shape], lines, other)),
                }
            });
        }
    }
    // STDDEV / VARIANCE / PERCENTILE: relations that hold whatever the exact definition (population or sample, interpolation rule) is
    {
        let values: [i64; 7] = [1, 2, 2, 5, -3, 10, 7];
        let idx: Vec<String> = (0..values.len()).map(|i| i.to_string()).collect();
        let idx_refs: Vec<&str> = idx.iter().map(|s| s.as_str()).collect();
        for (bi, seq) in sequences(&idx_refs, 4).into_iter().enumerate() {
            if seq.len() < 2 || (seq.len() == 4 && left_out(bi, 5)) { continue; }
            let vs: Vec<i64> = seq.iter().map(|s| values[s.parse::<usize>().unwrap()]).collect();
            g.case(&format!("spread-b{}", bi), move || {
                let lines: Vec<String> = vs.iter().map(|v| format!("k=a v={} s=x", v)).collect();
                let l: Vec<&str> = lines.iter().map(|s| s.as_str()).collect();
                let query = "SELECT STDDEV(v) AS sd, VARIANCE(v) AS var, STDDEV(v + 10) AS sd_shift, STDDEV(v * 2) AS sd_scale, PERCENTILE(v, 0.0) AS p0, PERCENTILE(v, 0.25) AS p25, PERCENTILE(v, 0.5) AS p50, PERCENTILE(v, 0.75) AS p75, PERCENTILE(v, 1.0) AS p100, MIN(v) AS lo, MAX(v) AS hi, COUNT(*) AS n FROM t";
                match q(DEF, query, &l) {
                    Outcome::Lines(rows, _) => {
                        let r: J = serde_json::from_str(&rows[0]).map_err(|e| e.to_string())?;
                        let f = |k: &str| r[k].as_f64();
                        let close = |a: f64, b: f64| (a - b).abs() <= 1e-9 * (1.0 + a.abs().max(b.abs()));
                        let (sd, var) = match (f("sd"), f("var")) { (Some(a), Some(b)) => (a, b), _ => return Err(format!("{} over {:?}: STDDEV / VARIANCE have no value: {}", query, vs, rows[0])) };
                        if !close(sd * sd, var) { return Err(format!("values {:?}: STDDEV = {} and VARIANCE = {}: the variance is not the square of the deviation", vs, sd, var)); }
                        if sd < 0.0 { return Err(format!("values {:?}: STDDEV = {}", vs, sd)); }
                        if vs.iter().all(|v| *v == vs[0]) && !close(var, 0.0) { return Err(format!("equal values {:?}: VARIANCE = {}", vs, var)); }
                        if !vs.iter().all(|v| *v == vs[0]) && var <= 0.0 { return Err(format!("different values {:?}: VARIANCE = {}", vs, var)); }
                        if !close(f("sd_shift").unwrap_or(f64::NAN), sd) { return Err(format!("values {:?}: STDDEV(v + 10) = {:?}, STDDEV(v) = {}", vs, f("sd_shift"), sd)); }
                        if !close(f("sd_scale").unwrap_or(f64::NAN), 2.0 * sd) { return Err(format!("values {:?}: STDDEV(v * 2) = {:?}, 2 * STDDEV(v) = {}", vs, f("sd_scale"), 2.0 * sd)); }
                        let (lo, hi) = (*vs.iter().min().unwrap() as f64, *vs.iter().max().unwrap() as f64);
                        let p: Vec<f64> = ["p0", "p25", "p50", "p75", "p100"].iter().map(|k| f(k).unwrap_or(f64::NAN)).collect();
                        if p[0] != lo || p[4] != hi || f("lo") != Some(lo) || f("hi") != Some(hi) { return Err(format!("values {:?}: PERCENTILE 0.0 / 1.0 are {} / {}, MIN / MAX print {:?} / {:?}; the smallest and largest values are {} / {}", vs, p[0], p[4], f("lo"), f("hi"), lo, hi)); }
                        if !(p[0] <= p[1] && p[1] <= p[2] && p[2] <= p[3] && p[3] <= p[4]) { return Err(format!("values {:?}: the percentiles 0, 0.25, 0.5, 0.75, 1 are {:?}: not monotone", vs, p)); }
                        if !p.iter().all(|x| vs.iter().any(|v| *v as f64 == *x)) { return Err(format!("values {:?}: a percentile {:?} is not one of the values", vs, p)); }
                        let mut sorted = vs.clone(); sorted.sort();
                        if sorted.len() % 2 == 1 && p[2] != sorted[sorted.len() / 2] as f64 { return Err(format!("values {:?}: the median of an odd number of values is the middle one ({}), PERCENTILE(v, 0.5) = {}", vs, sorted[sorted.len() / 2], p[2])); }
                        if r["n"].as_i64() != Some(vs.len() as i64) { return Err(format!("values {:?}: COUNT(*) = {}", vs, r["n"])); }
                        Ok(())
                    }
                    other => Err(format!("{} over {:?}: {:?}", query, vs, other)),
                }
            });
        }
    }
    // REAL and INTERVAL arguments and keys: one group per distinct key (NaN is one key), keys in ascending order; an argument that is NULL on the
    // first rows of a group and arrives later is summed like any other
    g.case("real-keys-with-nan", || {
        let def = "CREATE TABLE t(line = '^x=(\\\\S+) n=([0-9]+)$', line[1] => x REAL, line[2] => n INT);";
        let lines = ["x=1.5 n=1", "x=NaN n=2", "x=2.5 n=3", "x=NaN n=4", "x=1.5 n=5", "x=-0.0 n=6", "x=0.0 n=7"];
        match q(def, "SELECT x, COUNT(*) AS c, SUM(n) AS s, MAX(n) AS hi FROM t GROUP BY x", &lines) {
            Outcome::Lines(l, _) => { let rows: Vec<J> = l.iter().map(|r| serde_json::from_str(r).unwrap()).collect();
                let counts: Vec<i64> = rows.iter().map(|r| r["c"].as_i64().unwrap_or(-1)).collect();
                let mut sorted = counts.clone(); sorted.sort();
                if rows.len() != 4 || sorted != vec![1, 2, 2, 2] { return Err(format!("GROUP BY a REAL key over {:?} printed {:?}: one group per distinct key is due (0.0 and -0.0 are one key, NaN is one key, 1.5 twice, 2.5)", lines, l)); }
                let finite: Vec<f64> = rows.iter().filter_map(|r| r["x"].as_f64()).collect();
                if finite.windows(2).any(|w| w[0] > w[1]) { return Err(format!("the keys are not in ascending order: {:?}", l)); }
                Ok(()) }
            other => Err(format!("{:?}", other)) }
    });
    g.case("max-of-real-with-nan-any-order", || {
        let def = "CREATE TABLE t(line = '^x=(\\\\S+)$', line[1] => x REAL);";
        let mut seen: Option<Vec<String>> = None;
        for lines in [["x=NaN", "x=1.5", "x=2.5"], ["x=1.5", "x=NaN", "x=2.5"], ["x=2.5", "x=1.5", "x=NaN"]] {
            match q(def, "SELECT MAX(x) AS hi, MIN(x) AS lo, COUNT(x) AS c FROM t", &lines) { Outcome::Lines(l, _) => { if let Some(prev) = &seen { if *prev != l { return Err(format!("MAX / MIN of the same REAL values in another order: {:?} and {:?}", prev, l)); } } seen = Some(l); }, other => return Err(format!("{:?}", other)) }
        }
        Ok(())
    });
    g.case("interval-sum-after-null", || {
        let def = "CREATE TABLE t(line = '^k=(\\\\w+)(?: d=(\\\\S+))?$', line[1] => k TEXT, line[2] => d INTERVAL);";
        let lines = ["k=a", "k=a d=0:01:00", "k=b d=0:02:00", "k=a d=0:03:00", "k=b"];
        match q(def, "SELECT k, SUM(d) AS s, COUNT(d) AS c, MAX(d) AS hi FROM t GROUP BY k", &lines) {
            Outcome::Lines(l, _) => { let want = vec![r#"{"k":"a","s":"00:04:00.000","c":2,"hi":"00:03:00.000"}"#.to_owned(), r#"{"k":"b","s":"00:02:00.000","c":1,"hi":"00:02:00.000"}"#.to_owned()];
                if l == want { Ok(()) } else { Err(format!("SUM / COUNT / MAX of an INTERVAL argument that is NULL on the first row of group a, over {:?}: printed {:?}, computed from the rows of each group {:?}", lines, l, want)) } }
            other => Err(format!("{:?}", other)) }
    });
    g.done();
}
