// Shared by the bounded stand-ins in /verif/grid (included with include!).  Everything goes through the crate's public API.

use std::fs::File;
use std::io::Write;
use std::path::PathBuf;
use std::sync::Arc;
use std::sync::atomic::{AtomicBool, AtomicUsize, Ordering};

use sqlgrep::{ExecutionEngine, Tables};
use sqlgrep::executor::{FileExecutor, Printer, DisplayOptions};
use sqlgrep::parsing;

pub struct Captured { pub lines: Vec<String> }
impl Printer for Captured {
    fn println(&mut self, line: &str) { self.lines.push(line.to_owned()); }
}

static NEXT_FILE: AtomicUsize = AtomicUsize::new(0);

pub fn temp_path(tag: &str) -> PathBuf {
    let mut path = std::env::temp_dir();
    path.push(format!("sqlgrep_verif_grid_{}_{}_{}.log", std::process::id(), tag, NEXT_FILE.fetch_add(1, Ordering::SeqCst)));
    path
}
pub fn write_temp(tag: &str, content: &[u8]) -> PathBuf {
    let path = temp_path(tag);
    File::create(&path).unwrap().write_all(content).unwrap();
    path
}

pub fn tables(definition: &str) -> Result<Tables, String> {
    let mut tables = Tables::new();
    let statement = parsing::parse(definition).map_err(|e| format!("definition rejected: {}", e))?;
    if !tables.add_tables(statement) { return Err("not a CREATE TABLE".to_owned()); }
    Ok(tables)
}

#[derive(Debug, Clone, PartialEq)]
pub enum Outcome {
    /// printed records, number of lines the executor counted
    Lines(Vec<String>, u64),
    /// the query (or its parsing) reported an error
    Error(String),
    Panic(String),
}
impl Outcome {
    pub fn lines(&self) -> Option<&Vec<String>> { if let Outcome::Lines(l, _) = self { Some(l) } else { None } }
}

pub fn panic_text(e: Box<dyn std::any::Any + Send>) -> String {
    if let Some(s) = e.downcast_ref::<String>() { s.clone() } else if let Some(s) = e.downcast_ref::<&str>() { s.to_string() } else { "panic".to_owned() }
}

/// batch run of `query` over the given file contents (each written to a temporary file), text output format
pub fn run(definition: &str, query: &str, files: &[Vec<u8>]) -> Outcome {
    run_opts(definition, query, files, Default::default())
}
pub fn run_opts(definition: &str, query: &str, files: &[Vec<u8>], display_options: DisplayOptions) -> Outcome {
    let definition = definition.to_owned();
    let query = query.to_owned();
    let paths = files.iter().map(|c| write_temp("in", c)).collect::<Vec<_>>();
    let paths2 = paths.clone();
    let r = run_handles(&definition, &query, move || paths2.iter().map(|p| File::open(p).unwrap()).collect(), display_options);
    for p in paths { let _ = std::fs::remove_file(p); }
    r
}
/// the same over already opened inputs (regular files, pipes, ...)
pub fn run_handles<F: FnOnce() -> Vec<File> + std::panic::UnwindSafe>(definition: &str, query: &str, open: F, display_options: DisplayOptions) -> Outcome {
    let definition = definition.to_owned();
    let query = query.to_owned();
    let r = std::panic::catch_unwind(move || {
        let tables = match tables(&definition) { Ok(t) => t, Err(e) => return Outcome::Error(e) };
        let statement = match parsing::parse(&query) { Ok(s) => s, Err(e) => return Outcome::Error(format!("query rejected: {}", e)) };
        let mut executor = FileExecutor::with_output_printer(
            Arc::new(AtomicBool::new(true)),
            open(),
            display_options,
            Captured { lines: Vec::new() },
            ExecutionEngine::new(&tables, &statement)
        ).unwrap();
        match executor.execute() {
            Ok(()) => Outcome::Lines(executor.output_printer().printer().lines.clone(), executor.statistics().total_lines),
            Err(e) => Outcome::Error(format!("{}", e)),
        }
    });
    match r { Ok(o) => o, Err(e) => Outcome::Panic(panic_text(e)) }
}
/// a pipe holding `content`, its write end closed: an input whose metadata reports no size (what `--stdin` hands to the executor)
pub fn pipe_with(content: &[u8]) -> File {
    let (reader, mut writer) = std::io::pipe().unwrap();
    let content = content.to_vec();
    std::thread::spawn(move || { use std::io::Write; let _ = writer.write_all(&content); });
    File::from(std::os::fd::OwnedFd::from(reader))
}

/// thorough tier (VERIF_GRID_FULL=1): the families of cases that the quick tier samples are run in full
pub fn full() -> bool { std::env::var("VERIF_GRID_FULL").map(|v| v == "1").unwrap_or(false) }
/// true when case number `k` of a sampled family is left out (every `m`-th is kept in the quick tier, all of them in the thorough tier)
pub fn left_out(k: usize, m: usize) -> bool { !full() && k % m != 0 }

/// text contents -> bytes
pub fn b(s: &str) -> Vec<u8> { s.as_bytes().to_vec() }

pub struct Grid { name: &'static str, only: Option<String>, pub cases: usize, pub fails: usize, stride: usize, seen: std::collections::HashMap<String, usize>, pub skipped: usize }
impl Grid {
    pub fn new(name: &'static str) -> Grid {
        std::panic::set_hook(Box::new(|_| {}));
        println!();
        // VERIF_GRID_STRIDE=k (quick tier): of every family of cases (the case id without its digits) the first four and then every k-th
        let stride = std::env::var("VERIF_GRID_STRIDE").ok().and_then(|s| s.parse::<usize>().ok()).filter(|k| *k >= 1).unwrap_or(1);
        Grid { name, only: std::env::var("VERIF_GRID_ONLY").ok().filter(|s| !s.is_empty()), cases: 0, fails: 0, stride, seen: std::collections::HashMap::new(), skipped: 0 }
    }
    /// one case: `f` returns Err(description) when the property's statement does not hold for this input
    pub fn case<F: FnOnce() -> Result<(), String> + std::panic::UnwindSafe>(&mut self, id: &str, f: F) {
        if let Some(only) = &self.only { if only != id { return; } }
        else if self.fails >= 10 { self.skipped += 1; return; }   // the verdict is settled; failing cases are often the slow ones (time-outs)
        else if self.stride > 1 {
            let family: String = id.chars().filter(|c| !c.is_ascii_digit()).collect();
            let n = self.seen.entry(family).or_insert(0);
            *n += 1;
            if *n > 4 && *n % self.stride != 0 { self.skipped += 1; return; }
        }
        self.cases += 1;
        let r = match std::panic::catch_unwind(f) { Ok(r) => r, Err(e) => Err(format!("panic: {}", panic_text(e))) };
        if let Err(msg) = r {
            self.fails += 1;
            if self.fails <= 5 || self.only.is_some() {
                println!("GRID-FAIL grid={} case={} :: {}", self.name, id, msg.replace('\n', "\\n"));
            }
        }
    }
    pub fn done(self) { println!("GRID-DONE grid={} cases={} fails={} skipped={}", self.name, self.cases, self.fails, self.skipped); }
}

pub fn show(bytes: &[u8]) -> String {
    if bytes.len() <= 160 { format!("{:?}", String::from_utf8_lossy(bytes)) }
    else { format!("{:?}...({} bytes)...{:?}", String::from_utf8_lossy(&bytes[..60]), bytes.len(), String::from_utf8_lossy(&bytes[bytes.len() - 40..])) }
}
/// a printed line, shortened for messages
pub fn short(s: &str) -> String { if s.len() <= 160 { s.to_owned() } else { let head: String = s.chars().take(60).collect(); format!("{}...({} bytes)", head, s.len()) } }
