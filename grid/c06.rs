// Bounded stand-in for C06 (lines that yield no row are invisible to every query).
#![allow(dead_code, unused_imports)]
// Oracle (metamorphic, from the statement): the output of a query is unchanged when non-admitted lines are inserted at any
// positions of the input (or of the joined file).  Grid: 8 "worlds" (table definition, pool of admitted lines, kinds of
// non-admitted line: non-matching text, empty line, near-miss, line failing a NOT NULL column - with and without DEFAULT /
// BOOLEAN / array / JSON columns, two patterns) x every sequence of up to 2 admitted lines x one noise line at each position (kinds
// rotating) or all kinds at every position x plain / DISTINCT / LIMIT / aggregate / HAVING / INNER and OUTER JOIN statements, in batch and in follow mode;
// plus the admission rule itself on 13 (definition, line) pairs.
// Also: the same in follow mode (a non-admitted line shows nothing); worlds with array columns (all elements NULL), JSON
// columns (explicit nulls, empty containers; a NOT NULL column after a JSON column) and a NOT NULL month-name TIMESTAMP; follow mode
// from FollowFileIterator on with blank lines of spaces / tabs / CR; noise and half lines at the boundaries of several input files.
include!("verif_grid_common.rs");
include!("verif_grid_qcommon.rs");

fn with_noise<'a>(base: &[&'a str], noise: &[&'a str], at: Option<usize>) -> Vec<&'a str> {
    let mut out = Vec::new();
    for i in 0..=base.len() {
        if at.is_none() || at == Some(i) { out.extend_from_slice(noise); }
        if i < base.len() { out.push(base[i]); }
    }
    out
}

/// the lines FollowFileIterator (the reader of follow mode) delivers for a file that holds `lines`, each terminated by `terminator`
fn followed(lines: &[&str], terminator: &str) -> Vec<String> {
    use std::io::BufReader;
    let mut content = String::new();
    for l in lines { content.push_str(l); content.push_str(terminator); }
    let path = write_temp("followed", content.as_bytes());
    let file = std::fs::File::open(&path).unwrap();
    let n = lines.len();
    let (tx, rx) = std::sync::mpsc::channel::<String>();
    std::thread::spawn(move || { let mut it = sqlgrep::helpers::FollowFileIterator::new(BufReader::new(file)); for _ in 0..n { match it.next() { Some(l) => { if tx.send(l).is_err() { return; } }, None => return } } });
    let mut got = Vec::new();
    for _ in 0..n { match rx.recv_timeout(std::time::Duration::from_secs(3)) { Ok(l) => got.push(l), Err(_) => break } }
    let _ = std::fs::remove_file(&path);
    got
}

struct World { name: &'static str, def: String, pool: Vec<&'static str>, noise: Vec<&'static str>, statements: Vec<String> }

fn same_output(a: &Outcome, b: &Outcome) -> bool {
    match (a, b) { (Outcome::Lines(x, _), Outcome::Lines(y, _)) => x == y, _ => a == b }
}

#[test]
fn verif_grid() {
    let mut g = Grid::new("c06");
    let mut common: Vec<String> = Vec::new();
    for s in PLAIN.iter().chain(PLAIN_DISTINCT.iter()).chain(AGGREGATE.iter()) { common.push(s.to_string()); }
    // statements that name no column of the table
    for s in ["SELECT 1 AS one FROM t", "SELECT input FROM t WHERE regexp_matches(input, 'a')", "SELECT DISTINCT input FROM t", "SELECT input FROM t LIMIT 2", "SELECT COUNT(*) AS n FROM t WHERE input != 'x'"] { common.push(s.to_string()); }
    common.push("SELECT k, v FROM t LIMIT 1".to_owned());
    common.push("SELECT DISTINCT k FROM t LIMIT 2".to_owned());
    let hosts = write_temp("hosts", &join_lines(&["h=alpha site=eu", "h=beta site=us", "h=alpha site=ap"]));
    let hosts_noisy = write_temp("hosts_noisy", &join_lines(&["", "h=alpha site=eu", "junk", "h= site=eu", "h=beta site=us", "H=beta site=us", "h=alpha site=ap", ""]));
    let join_def = "CREATE TABLE t(line = '^u=(\\\\w+) h=(\\\\w*)$', line[1] => k TEXT, line[2] => host TEXT); \
                    CREATE TABLE hosts(line = '^h=(\\\\w+) site=(\\\\w+)$', line[1] => name TEXT, line[2] => site TEXT);";
    let join_statements = |file: &std::path::Path| -> Vec<String> { vec![
        format!("SELECT k, host, hosts.site FROM t INNER JOIN hosts::'{}' ON t.host = hosts.name", file.display()),
        format!("SELECT k, host, hosts.site FROM t OUTER JOIN hosts::'{}' ON t.host = hosts.name", file.display()),
        format!("SELECT DISTINCT hosts.site FROM t OUTER JOIN hosts::'{}' ON t.host = hosts.name", file.display()),
        format!("SELECT k, hosts.site FROM t OUTER JOIN hosts::'{}' ON t.host = hosts.name LIMIT 2", file.display()),
        format!("SELECT hosts.site, COUNT(*) AS n FROM t INNER JOIN hosts::'{}' ON t.host = hosts.name GROUP BY hosts.site", file.display()),
    ] };
    let worlds = vec![
        World { name: "t", def: T.to_owned(), pool: POOL.to_vec(), noise: NOISE.to_vec(), statements: common.clone() },
        World { name: "nn", def: T_NN.to_owned(), pool: POOL.iter().cloned().filter(|l| *l != "k=b v=").collect(), noise: { let mut n = NOISE.to_vec(); n.push("k=b v="); n }, statements: common.clone() },
        World { name: "bool", def: "CREATE TABLE t(line = '^u=(\\\\w+)( sudo)?$', line[1] => k TEXT, line[2] => sudo BOOLEAN);".to_owned(),
                pool: vec!["u=ann sudo", "u=bob", "u=ann"], noise: vec!["", "x", "u= sudo", "U=ann"],
                statements: ["SELECT k, sudo FROM t", "SELECT * FROM t WHERE NOT sudo", "SELECT DISTINCT k FROM t", "SELECT k, sudo FROM t LIMIT 2",
                             "SELECT COUNT(*) AS n FROM t", "SELECT sudo, COUNT(*) AS n FROM t GROUP BY sudo", "SELECT DISTINCT sudo FROM t"].iter().map(|s| s.to_string()).collect() },
        World { name: "default-nn", def: "CREATE TABLE t(a = 'a=(\\\\d+)', b = 'b=(\\\\w+)', a[1] => x INT NOT NULL, b[1] => y TEXT DEFAULT 'unknown');".to_owned(),
                pool: vec!["a=1 b=q", "a=2", "a=1 b=r"], noise: vec!["", "b=q", "nothing", "a= b=z"],
                statements: ["SELECT x, y FROM t", "SELECT * FROM t WHERE y = 'unknown'", "SELECT DISTINCT y FROM t", "SELECT x FROM t LIMIT 2",
                             "SELECT COUNT(*) AS n FROM t", "SELECT y, COUNT(*) AS n, SUM(x) AS s FROM t GROUP BY y"].iter().map(|s| s.to_string()).collect() },
        World { name: "array", def: "CREATE TABLE t(line = '^x=([0-9]*) y=([0-9]*)( z)?$', line[1], line[2] => xs INT[]);".to_owned(),
                pool: vec!["x=1 y=2", "x=3 y=", "x= y=4 z"], noise: vec!["", "x= y=", "x=99999999999999999999 y=", "X=1 y=2", "x= y= z"],
                statements: ["SELECT xs FROM t", "SELECT COUNT(*) AS n FROM t", "SELECT DISTINCT xs FROM t", "SELECT xs FROM t LIMIT 2", "SELECT array_length(xs) AS n FROM t"].iter().map(|s| s.to_string()).collect() },
        World { name: "json", def: "CREATE TABLE t({ .msg } => msg TEXT, { .tags[0] } => tag TEXT, { .n } => n INT);".to_owned(),
                pool: vec![r#"{"msg": "hello", "n": 1}"#, r#"{"tags": ["x"], "n": 2}"#, r#"{"msg": "", "tags": []}"#],
                noise: vec!["", r#"{"msg": null}"#, r#"{"msg": null, "tags": [null], "n": null}"#, "{}", "[]", "null", r#"{"other": 1}"#, "not json", r#"{"msg": 5, "n": "7"}"#, r#"{"msg": "x"} trailing"#, r#"{"msg": "x"}{"msg": "y"}"#, r#"{"msg": "x"}}"#, r#"{"msg": "x"} {"n": 2}"#],
                statements: ["SELECT msg, tag, n FROM t", "SELECT COUNT(*) AS c FROM t", "SELECT DISTINCT msg FROM t", "SELECT msg FROM t LIMIT 2", "SELECT msg, COUNT(*) AS c FROM t GROUP BY msg"].iter().map(|s| s.to_string()).collect() },
        World { name: "json-nn", def: "CREATE TABLE t({ .ts } => ts INT, { .account } => account TEXT NOT NULL, { .status } => status INT);".to_owned(),
                pool: vec![r#"{"ts": 1, "account": "ann", "status": 200}"#, r#"{"account": "bob"}"#, r#"{"ts": 3, "account": "ann"}"#],
                noise: vec!["", r#"{"ts": 5}"#, r#"{"ts": 6, "account": null, "status": 1}"#, r#"{"ts": 7, "account": 9, "status": 1}"#, r#"{"status": 404}"#, "not json"],
                statements: ["SELECT ts, account, status FROM t", "SELECT COUNT(*) AS c, MAX(ts) AS m FROM t", "SELECT DISTINCT account FROM t", "SELECT ts FROM t LIMIT 2", "SELECT account, COUNT(*) AS c FROM t GROUP BY account",
                             "SELECT status, COUNT(*) AS c FROM t GROUP BY status"].iter().map(|s| s.to_string()).collect() },
        World { name: "month", def: "CREATE TABLE t(line = '^on ([0-9]+) ([A-Za-z]+) ([0-9]+) (.*)$', line[3], line[2], line[1] => ts TIMESTAMP NOT NULL, line[4] => msg TEXT);".to_owned(),
                pool: vec!["on 5 Mar 2020 boot", "on 31 dec 1999 party", "on 9 Sept 2021 fall"], noise: vec!["", "on 5 Marker 2020 x", "on 1 Decoder 2021 y", "on 7 Maybe 2020 z", "on 31 Feb 2020 w", "on x Mar 2020 v"],
                statements: ["SELECT ts, msg FROM t", "SELECT COUNT(*) AS c FROM t", "SELECT DISTINCT msg FROM t", "SELECT msg FROM t LIMIT 2", "SELECT msg, COUNT(*) AS c FROM t GROUP BY msg"].iter().map(|s| s.to_string()).collect() },
        World { name: "join", def: join_def.to_owned(), pool: vec!["u=ann h=alpha", "u=bob h=gamma", "u=cy h=beta", "u=dee h="], noise: vec!["", "zzz", "u= h=alpha", "u=ann"],
                statements: join_statements(&hosts) },
    ];
    for w in &worlds {
        for (bi, base) in sequences(&w.pool, 2).into_iter().enumerate() {
            for (si, st) in w.statements.iter().enumerate() {
                let reference = q(&w.def, st, &base);
                if reference.lines().is_none() {
                    let (st2, r2, b2) = (st.clone(), reference.clone(), base.clone());
                    g.case(&format!("{}-b{}-s{}-reference", w.name, bi, si), move || Err(format!("{} over {:?} has no value ({:?}): the grid is not exercising it", st2, b2, r2)));
                    continue;
                }
                for at in 0..=base.len() {
                    let ni = (bi + si + at) % w.noise.len();
                    let n = w.noise[ni];
                    let input = with_noise(&base, &[n], Some(at));
                    let (def, st2, reference2, base2) = (w.def.clone(), st.clone(), reference.clone(), base.clone());
                    g.case(&format!("{}-b{}-s{}-n{}-at{}", w.name, bi, si, ni, at), move || {
                        let got = q(&def, &st2, &input);
                        if same_output(&got, &reference2) { Ok(()) }
                        else { Err(format!("{} over {:?} gives {:?}; with the non-admitted line {:?} inserted at position {} it gives {:?} (definition: {})", st2, base2, reference2, n, at, got, def)) }
                    });
                }
                let input = with_noise(&base, &w.noise, None);
                let (def, st2, reference2, base2) = (w.def.clone(), st.clone(), reference.clone(), base.clone());
                g.case(&format!("{}-b{}-s{}-everywhere", w.name, bi, si), move || {
                    let got = q(&def, &st2, &input);
                    if same_output(&got, &reference2) { Ok(()) }
                    else { Err(format!("{} over {:?} gives {:?}; with non-admitted lines everywhere ({:?}) it gives {:?} (definition: {})", st2, base2, reference2, input, got, def)) }
                });
            }
        }
    }
    // follow mode (one engine, line by line): a non-admitted line shows nothing, and what the other lines show is unchanged
    for w in worlds.iter().filter(|w| w.name != "join") {
        for (bi, base) in sequences(&w.pool, 2).into_iter().enumerate() {
            for (si, st) in w.statements.iter().enumerate() {
                let (def, st2, base2, noise) = (w.def.clone(), st.clone(), base.clone(), w.noise.clone());
                g.case(&format!("follow-{}-b{}-s{}", w.name, bi, si), move || {
                    let reference: Vec<Vec<String>> = incremental(&def, &st2, &base2)?.into_iter().flatten().collect();
                    let input = with_noise(&base2, &noise, None);
                    let shown = incremental(&def, &st2, &input)?;
                    for (line, s) in input.iter().zip(shown.iter()) {
                        if noise.contains(line) && s.is_some() { return Err(format!("{} in follow mode: the non-admitted line {:?} made the engine show {:?} (definition: {})", st2, line, s, def)); }
                    }
                    let got: Vec<Vec<String>> = shown.into_iter().flatten().collect();
                    if got == reference { Ok(()) } else { Err(format!("{} in follow mode over {:?} shows {:?}; with non-admitted lines everywhere it shows {:?} (definition: {})", st2, base2, reference, got, def)) }
                });
            }
        }
    }
    // follow mode from the file reader on (FollowFileIterator, then the engine): blank lines made of spaces, a tab or the CR of a CRLF line end
    // are lines like any other - not admitted here, and without effect on the lines after them
    for (bi, base) in sequences(&POOL, 2).into_iter().enumerate() {
        if base.is_empty() { continue; }
        for (si, st) in ["SELECT k, v FROM t", "SELECT input FROM t", "SELECT k, COUNT(*) AS n, SUM(v) AS s FROM t GROUP BY k"].iter().enumerate() {
            // (LF files only: FollowFileIterator ends lines at LF and hands the CR of a CRLF file on as part of the line - "\r" below is such a blank line)
            for (ti, terminator) in ["\n"].iter().enumerate() {
                let base2 = base.clone();
                g.case(&format!("follow-reader-b{}-s{}-t{}", bi, si, ti), move || {
                    let reference: Vec<Vec<String>> = incremental(T, st, &base2)?.into_iter().flatten().collect();
                    let input = with_noise(&base2, &["garbage", "   ", "\t", "", "\r", " \t "], None);
                    let delivered = followed(&input, terminator);
                    let refs: Vec<&str> = delivered.iter().map(|l| l.as_str()).collect();
                    let got: Vec<Vec<String>> = incremental(T, st, &refs)?.into_iter().flatten().collect();
                    if got == reference { Ok(()) } else { Err(format!("{} in follow mode over a file with the lines {:?} (line end {:?}): the reader delivered {:?} and the engine showed {:?}; without the blank lines it shows {:?}", st, input, terminator, delivered, got, reference)) }
                });
            }
        }
    }
    // several input files: a last line without line feed ends with its file - noise at either side of a file boundary changes nothing and
    // two non-admitted halves never make a row
    for (si, st) in ["SELECT k, v FROM t", "SELECT COUNT(*) AS n, SUM(v) AS s FROM t", "SELECT DISTINCT k FROM t", "SELECT k FROM t LIMIT 2"].iter().enumerate() {
        for (fi, (files, clean)) in [(vec![b("k=b v=2\nk=a"), b(" v=1\nk=c v=7\n")], vec!["k=b v=2", "k=c v=7"]), (vec![b("k=a v=1"), b("garbage\nk=b v=1\n")], vec!["k=a v=1", "k=b v=1"]),
                                      (vec![b("k=a v=1\ngarbage"), b("k=b v=1\n")], vec!["k=a v=1", "k=b v=1"]), (vec![b("k=a v=1\nk="), b("b v=1\nk=c v=7"), b("\nk=a v=2\n")], vec!["k=a v=1", "k=c v=7", "k=a v=2"]),
                                      (vec![b("k=a v=1"), b(""), b("k=b v=1")], vec!["k=a v=1", "k=b v=1"])].into_iter().enumerate() {
            g.case(&format!("file-boundary-f{}-s{}", fi, si), move || {
                let reference = q(T, st, &clean);
                let got = run_opts(T, st, &files, json_opts());
                if same_output(&reference, &got) { Ok(()) } else { Err(format!("{} over the files {:?} gives {:?}; the admitted lines are {:?}, which alone give {:?}", st, files.iter().map(|f| show(f)).collect::<Vec<_>>(), got, clean, reference)) }
            });
        }
    }
    // the joined side: non-admitted lines in the joined file change nothing
    for (bi, base) in sequences(&worlds[7].pool, 2).into_iter().enumerate() {
        for (si, (a, c)) in join_statements(&hosts).into_iter().zip(join_statements(&hosts_noisy).into_iter()).enumerate() {
            let base2 = base.clone();
            g.case(&format!("joined-side-b{}-s{}", bi, si), move || {
                let (x, y) = (q(join_def, &a, &base2), q(join_def, &c, &base2));
                if same_output(&x, &y) { Ok(()) } else { Err(format!("{} over {:?} gives {:?}; with non-admitted lines inserted into the joined file it gives {:?}", a, base2, x, y)) }
            });
        }
    }
    let _ = std::fs::remove_file(&hosts);
    let _ = std::fs::remove_file(&hosts_noisy);
    // admission: a line becomes a row iff at least one column obtains a non-NULL value (a DEFAULT counts) and every NOT NULL column is non-NULL
    let d3 = "CREATE TABLE t(a = 'a=(\\\\d+)', b = 'b=(\\\\w+)', a[1] => x INT, b[1] => y TEXT);";
    let d4 = "CREATE TABLE t(a = 'a=(\\\\d+)', b = 'b=(\\\\w+)', a[1] => x INT NOT NULL, b[1] => y TEXT);";
    let d5 = "CREATE TABLE t(a = 'a=(\\\\d+)', b = 'b=(\\\\w+)', a[1] => x INT DEFAULT 5, b[1] => y TEXT);";
    let d6 = "CREATE TABLE t(a = 'a=(\\\\d+)', b = 'b=(\\\\w+)', a[1] => x INT NOT NULL, b[1] => y TEXT DEFAULT 'u');";
    for (i, (def, line, rows)) in [
        (d3, "a=1 b=q", 1), (d3, "a=1", 1), (d3, "b=q", 1), (d3, "nothing", 0), (d3, "", 0), (d3, "a= b=", 0),
        (d4, "a=1 b=q", 1), (d4, "a=1", 1), (d4, "b=q", 0), (d4, "nothing", 0),
        (d5, "nothing", 1), (d5, "b=q", 1), (d5, "", 1),
        (d6, "nothing", 0), (d6, "b=q", 0), (d6, "a=3", 1),
    ].iter().enumerate() {
        g.case(&format!("admission-{}", i), move || match q(def, "SELECT COUNT(*) AS n FROM t", &[line, "a=7 b=z"]) {
            Outcome::Lines(l, _) => if l == vec![format!("{{\"n\":{}}}", rows + 1)] { Ok(()) } else { Err(format!("definition {} line {:?}: expected {} row(s) from it, COUNT(*) over it and one admitted line printed {:?}", def, line, rows, l)) },
            other => Err(format!("{:?}", other)),
        });
    }
    g.done();
}
