// Bounded stand-in for C02 (JSON-path extraction yields exactly the addressed JSON value, typed).
#![allow(dead_code, unused_imports)]
// Oracle (from the statement, over serde_json's own parse of the line): follow the path (object fields, array indexes); INT
// only from integers within 64 bits, REAL from any number, TEXT only from strings, BOOLEAN only from booleans, arrays
// element-wise, CONVERT = the JSON string parsed as the declared type; NULL when the value has another type; NULL or the
// declared DEFAULT when the path is absent or the line is not valid JSON; regex columns keep working on the raw line.
// Grid: 24 column definitions (every scalar type, nested paths, array indexes - also as the last step of a column with a DEFAULT -, CONVERT, DEFAULT, NOT NULL, an array column,
// a regex column next to JSON columns) x 36 lines (nesting, insignificant whitespace around the document, wrong-typed leaves, numbers beyond i64 / f64, duplicate keys,
// arrays, empty containers, non-JSON text, truncated JSON).
// Also: tables with regex and JSON columns where no pattern matches the JSON line; a table of JSON columns only with DEFAULTs on lines that are no JSON.
include!("verif_grid_common.rs");
include!("verif_grid_qcommon.rs");
use serde_json::Value as J;

#[derive(Clone, Copy, PartialEq, Debug)]
enum Ty { Int, Real, Text, Bool }
#[derive(Clone, Debug)]
enum Step { F(&'static str), I(usize) }
#[derive(Clone, Debug)]
struct Col { path: Vec<Step>, ty: Ty, convert: bool, default: Option<&'static str>, array: bool }

fn path_text(p: &[Step]) -> String { p.iter().map(|s| match s { Step::F(n) => format!(".{}", n), Step::I(i) => format!("[{}]", i) }).collect() }
fn ty_name(t: Ty) -> &'static str { match t { Ty::Int => "INT", Ty::Real => "REAL", Ty::Text => "TEXT", Ty::Bool => "BOOLEAN" } }

fn walk<'a>(v: &'a J, p: &[Step]) -> Option<&'a J> {
    let mut cur = v;
    for s in p { cur = match s { Step::F(n) => cur.as_object()?.get(*n)?, Step::I(i) => cur.as_array()?.get(*i)? }; }
    Some(cur)
}
fn scalar(t: Ty, v: &J) -> J {
    match t {
        Ty::Int => v.as_i64().map(|x| serde_json::json!(x)).unwrap_or(J::Null),
        Ty::Real => if v.is_number() { v.as_f64().map(|x| serde_json::json!(x)).unwrap_or(J::Null) } else { J::Null },
        Ty::Text => v.as_str().map(|x| serde_json::json!(x)).unwrap_or(J::Null),
        Ty::Bool => v.as_bool().map(|x| serde_json::json!(x)).unwrap_or(J::Null),
    }
}
fn parse_text(t: Ty, s: &str) -> J {
    match t {
        Ty::Int => s.parse::<i64>().map(|x| serde_json::json!(x)).unwrap_or(J::Null),
        Ty::Real => s.parse::<f64>().ok().filter(|x| x.is_finite()).map(|x| serde_json::json!(x)).unwrap_or(J::Null),
        Ty::Text => serde_json::json!(s),
        Ty::Bool => match s { "true" => serde_json::json!(true), "false" => serde_json::json!(false), _ => J::Null },
    }
}
fn default_value(c: &Col) -> J {
    match c.default { None => J::Null, Some(d) => match c.ty { Ty::Text => serde_json::json!(d.trim_matches('\'')), _ => parse_text(c.ty, d) } }
}
fn expected(c: &Col, doc: &J) -> J {
    match walk(doc, &c.path) {
        None => default_value(c),
        Some(v) => if c.convert { match v.as_str() { Some(s) => parse_text(c.ty, s), None => J::Null } }
                   else if c.array { match v.as_array() { Some(items) => J::Array(items.iter().map(|x| scalar(c.ty, x)).collect()), None => J::Null } }
                   else { scalar(c.ty, v) },
    }
}
fn num_eq(a: &J, b: &J) -> bool {
    match (a, b) {
        (J::Number(x), J::Number(y)) => if x.is_i64() && y.is_i64() { x.as_i64() == y.as_i64() } else if x.is_f64() || y.is_f64() { x.as_f64() == y.as_f64() } else { x == y },
        (J::Array(x), J::Array(y)) => x.len() == y.len() && x.iter().zip(y.iter()).all(|(p, q)| num_eq(p, q)),
        _ => a == b,
    }
}

#[test]
fn verif_grid() {
    let mut g = Grid::new("c02");
    use Step::{F, I};
    let col = |path: Vec<Step>, ty: Ty| Col { path, ty, convert: false, default: None, array: false };
    let cols: Vec<Col> = vec![
        col(vec![F("a")], Ty::Int), col(vec![F("a")], Ty::Real), col(vec![F("a")], Ty::Text), col(vec![F("a")], Ty::Bool),
        col(vec![F("o"), F("x")], Ty::Int), col(vec![F("o"), F("y"), F("z")], Ty::Text), col(vec![F("l"), I(0)], Ty::Int), col(vec![F("l"), I(2)], Ty::Real),
        col(vec![F("l"), I(1), F("k")], Ty::Text), col(vec![I(0)], Ty::Int), col(vec![I(1), F("a")], Ty::Bool),
        Col { path: vec![F("s")], ty: Ty::Int, convert: true, default: None, array: false }, Col { path: vec![F("s")], ty: Ty::Real, convert: true, default: None, array: false },
        Col { path: vec![F("s")], ty: Ty::Bool, convert: true, default: None, array: false }, Col { path: vec![F("a")], ty: Ty::Int, convert: true, default: None, array: false },
        Col { path: vec![F("m")], ty: Ty::Int, convert: false, default: Some("7"), array: false }, Col { path: vec![F("m"), F("n")], ty: Ty::Text, convert: false, default: Some("'none'"), array: false },
        Col { path: vec![F("a")], ty: Ty::Real, convert: false, default: Some("1.5"), array: false },
        // a path that ends in an index: past the end of the array, or on something that is not an array, the path is ABSENT (DEFAULT applies)
        Col { path: vec![F("l"), I(3)], ty: Ty::Int, convert: false, default: Some("77"), array: false }, Col { path: vec![F("l"), I(0)], ty: Ty::Text, convert: false, default: Some("'none'"), array: false },
        Col { path: vec![I(2)], ty: Ty::Int, convert: false, default: Some("9"), array: false }, Col { path: vec![F("l"), I(1), I(0)], ty: Ty::Real, convert: false, default: Some("0.5"), array: false },
        Col { path: vec![F("l")], ty: Ty::Int, convert: false, default: None, array: true }, Col { path: vec![F("o"), F("list")], ty: Ty::Text, convert: false, default: None, array: true },
    ];
    let lines: Vec<&str> = vec![
        r#"{"a": 1}"#, r#"{"a": -5, "s": "12"}"#, r#"{"a": 1.5, "s": "1.25"}"#, r#"{"a": "text", "s": "true"}"#, r#"{"a": true, "s": "x"}"#, r#"{"a": null}"#,
        r#"{"a": 9223372036854775807}"#, r#"{"a": 9223372036854775808}"#, r#"{"a": -9223372036854775809}"#, r#"{"a": 1e400}"#, r#"{"a": 1e308, "s": "1e400"}"#, r#"{"a": 0.1, "s": "9223372036854775808"}"#,
        r#"{"o": {"x": 3, "y": {"z": "deep"}, "list": ["p", 2, "q"]}, "l": [10, {"k": "v"}, 2.5]}"#, r#"{"o": {"x": "3", "y": "flat"}, "l": []}"#, r#"{"o": [1, 2], "l": {"0": 1}}"#,
        r#"{"a": 1, "a": 2}"#, r#"{"l": [1, "two", 3.0, null, true]}"#, r#"{"l": [1, [0.25, 2], 3, 4]}"#, r#"{"l": ["only"]}"#, r#"{"l": "text"}"#, r#"[1, 2, 3]"#, r#"[5, {"a": false}]"#, r#"[]"#, r#"{}"#, r#"7"#, r#""just a string""#,
        "  {\"a\": 3, \"s\": \"4\"}", "\t{\"a\": 4}  ", " [6, {\"a\": true}]", "\u{a0}{\"a\": 5}",
        r#"{"\u0061": 8, "s": "9"}"#, r#"{"o": {"\u0078": 4, "y": {"z": "esc\u0061ped"}}, "\u006c": [3]}"#,
        r#"not json at all"#, r#"{"a": 1"#, r#""#, r#"{"a": 1} trailing"#,
        // CONVERT parses the JSON string as it stands: padded text is not a number / boolean
        r#"{"a": 2, "s": " 167"}"#, r#"{"a": 3, "s": "true "}"#, r#"{"a": 4, "s": "\t1.5"}"#, r#"{"a": 5, "s": "12\n"}"#, r#"{"a": " 6", "s": " false"}"#,
    ];
    for (ci, c) in cols.iter().enumerate() {
        let def = format!("CREATE TABLE t(raw = '(.*)', raw[1] => line TEXT, {{ {} }} => v {}{}{}{});", path_text(&c.path), ty_name(c.ty), if c.array { "[]" } else { "" },
            if c.convert { " CONVERT" } else { "" }, match c.default { Some(d) => format!(" DEFAULT {}", d), None => String::new() });
        for (li, line) in lines.iter().enumerate() {
            let (c, def, line) = (c.clone(), def.clone(), line.to_string());
            g.case(&format!("col{}-line{}", ci, li), move || {
                let doc: J = serde_json::from_str(&line).unwrap_or(J::Null);
                let want = expected(&c, &doc);
                match q(&def, "SELECT line, v FROM t", &[&line]) {
                    Outcome::Lines(rows, _) => {
                        if rows.len() != 1 { return Err(format!("{} on the line {:?}: one row expected (the regex column admits every line), printed {:?}", def, line, rows)); }
                        let got: J = serde_json::from_str(&rows[0]).map_err(|e| format!("record {:?} is not JSON: {}", rows[0], e))?;
                        if got["line"] != serde_json::json!(line) { return Err(format!("{} on the line {:?}: the regex column of the same table shows {:?}", def, line, got["line"])); }
                        if num_eq(&got["v"], &want) { Ok(()) } else { Err(format!("{} on the line {:?}: the column holds {}, the addressed value typed is {}", def, line, got["v"], want)) }
                    }
                    other => Err(format!("{} on the line {:?}: {:?}", def, line, other)),
                }
            });
        }
    }
    // regex columns and JSON columns of one table are independent: a JSON line that no pattern matches still fills the JSON columns
    for (i, (def, line, want)) in [
        ("CREATE TABLE t(ts = '^\\\\[(\\\\d+)\\\\]', ts[1] => stamp INT, { .a } => a INT, { .s } => s TEXT DEFAULT 'none');", r#"{"a": 5, "s": "x"}"#, r#"{"stamp":null,"a":5,"s":"x"}"#),
        ("CREATE TABLE t(ts = '^\\\\[(\\\\d+)\\\\]', ts[1] => stamp INT, { .a } => a INT, { .s } => s TEXT DEFAULT 'none');", r#"{"a": 6}"#, r#"{"stamp":null,"a":6,"s":"none"}"#),
        ("CREATE TABLE t(ts = '^\\\\[(\\\\d+)\\\\]', ts[1] => stamp INT, { .a } => a INT, { .s } => s TEXT DEFAULT 'none');", "[17] not json", r#"{"stamp":17,"a":null,"s":"none"}"#),
        ("CREATE TABLE t(w = split ' ', w[1] => first TEXT, 'id=(\\\\d+)' => id INT, { .k[0] } => k REAL);", r#"{"k":[2.5]}"#, r#"{"first":"{\"k\":[2.5]}","id":null,"k":2.5}"#),
    ].iter().enumerate() {
        g.case(&format!("mixed-table-{}", i), move || match q(def, "SELECT * FROM t", &[line]) {
            Outcome::Lines(rows, _) => if rows.len() == 1 && num_eq(&serde_json::from_str::<J>(&rows[0]).unwrap(), &serde_json::from_str::<J>(want).unwrap()) { Ok(()) }
                else { Err(format!("{} on the line {:?} printed {:?}, expected {}", def, line, rows, want)) },
            other => Err(format!("{:?}", other)),
        });
    }
    // NOT NULL on a JSON column: the line is a row only if the value is there; columns do not influence each other
    let def = "CREATE TABLE t({ .a } => a INT NOT NULL, { .b } => b TEXT DEFAULT 'd', { .c.d } => cd REAL);";
    for (i, (line, want)) in [(r#"{"a": 1, "b": "x", "c": {"d": 2}}"#, Some(r#"{"a":1,"b":"x","cd":2.0}"#)), (r#"{"a": 1}"#, Some(r#"{"a":1,"b":"d","cd":null}"#)), (r#"{"b": "x"}"#, None),
                              (r#"{"a": "1", "b": "x"}"#, None), (r#"{"a": 2, "b": 5, "c": {"d": "x"}}"#, Some(r#"{"a":2,"b":null,"cd":null}"#)), ("garbage", None)].iter().enumerate() {
        g.case(&format!("not-null-{}", i), move || match q(def, "SELECT * FROM t", &[line]) {
            Outcome::Lines(rows, _) => { let want_rows: Vec<String> = want.iter().map(|s| s.to_string()).collect();
                let same = rows.len() == want_rows.len() && rows.iter().zip(want_rows.iter()).all(|(a, b)| num_eq(&serde_json::from_str::<J>(a).unwrap(), &serde_json::from_str::<J>(b).unwrap()));
                if same { Ok(()) } else { Err(format!("{} on the line {:?} printed {:?}, expected {:?}", def, line, rows, want_rows)) } }
            other => Err(format!("{:?}", other)),
        });
    }
    // a table of JSON columns only: a line that is no JSON document has no value anywhere, so a column with a DEFAULT takes it (and the row exists)
    let def = "CREATE TABLE t({ .a } => a INT DEFAULT 7, { .s } => s TEXT, { .l[0] } => first REAL DEFAULT 0.5);";
    for (i, (line, want)) in [("not json", Some(r#"{"a":7,"s":null,"first":0.5}"#)), ("", Some(r#"{"a":7,"s":null,"first":0.5}"#)), ("null", Some(r#"{"a":7,"s":null,"first":0.5}"#)), (r#"{"a": 1"#, Some(r#"{"a":7,"s":null,"first":0.5}"#)),
                              ("{}", Some(r#"{"a":7,"s":null,"first":0.5}"#)), (r#"{"s": "x"}"#, Some(r#"{"a":7,"s":"x","first":0.5}"#)), (r#"{"a": 2, "l": [3]}"#, Some(r#"{"a":2,"s":null,"first":3.0}"#)),
                              (r#"{"a": "2"}"#, Some(r#"{"a":null,"s":null,"first":0.5}"#))].iter().enumerate() {
        g.case(&format!("json-only-default-{}", i), move || match q(def, "SELECT * FROM t", &[line, r#"{"a": 5, "s": "end"}"#]) {
            Outcome::Lines(rows, _) => { let mut want_rows: Vec<String> = want.iter().map(|s| s.to_string()).collect(); want_rows.push(r#"{"a":5,"s":"end","first":0.5}"#.to_owned());
                let same = rows.len() == want_rows.len() && rows.iter().zip(want_rows.iter()).all(|(a, b)| num_eq(&serde_json::from_str::<J>(a).unwrap(), &serde_json::from_str::<J>(b).unwrap()));
                if same { Ok(()) } else { Err(format!("{} on the lines {:?} and a closing record printed {:?}, expected {:?}", def, line, rows, want_rows)) } }
            other => Err(format!("{:?}", other)),
        });
    }
    g.done();
}
