// Bounded stand-in for C15 (order-insensitive aggregates ignore line order and how the input is split).
#![allow(dead_code, unused_imports)]
// Oracle (from the statement): the result table is the same for every permutation of the input lines; over a concatenation
// counts and sums add, minima and maxima combine and the groups are the union.  Grid: every multiset of up to 4 lines over a
// 7-line pool (INT and NULL arguments, three groups) - all its permutations - x 8 statements (COUNT, COUNT(c), COUNT(DISTINCT),
// SUM, MIN, MAX, AVG, PERCENTILE, BOOL_AND, BOOL_OR, with GROUP BY / WHERE / HAVING); STDDEV / VARIANCE on values whose
// sums are exactly representable, compared to 9 decimals; every cut of every sequence of up to 4 lines into two parts for
// COUNT / SUM / MIN / MAX per group.
// Also: COUNT(DISTINCT) over 20 distinct values with repeats in 32 orders; lines that start with a byte order mark / blank / tab at every
// position and as the first line of a second file; the table produced after every line (multisets of up to 3 lines, 5 statements) ends the same for every permutation; every cut
// also as two input files, the first with and without a final line feed; 11 large INT values (neighbours of 2^53, 10^8, 10^9, the 64-bit ends) in all multisets of 2..3 with MIN / MAX /
// COUNT(DISTINCT) / STDDEV / VARIANCE / PERCENTILE compared exactly; 12 values whose squares need more than 53 bits in 5 orders; MIN / MAX of all triples of 8 TEXT values
// that look like numbers or not (every permutation).
include!("verif_grid_common.rs");
include!("verif_grid_qcommon.rs");

fn permutations<'a>(items: &[&'a str]) -> Vec<Vec<&'a str>> {
    if items.len() <= 1 { return vec![items.to_vec()]; }
    let mut out = Vec::new();
    for i in 0..items.len() {
        let mut rest = items.to_vec();
        let x = rest.remove(i);
        for mut p in permutations(&rest) { p.insert(0, x); out.push(p); }
    }
    out.sort(); out.dedup();
    out
}

fn round_numbers(v: &serde_json::Value) -> serde_json::Value {
    use serde_json::Value as J;
    match v {
        J::Number(n) if n.is_f64() => { let x = (n.as_f64().unwrap() * 1e9).round() / 1e9; serde_json::json!(x) }
        J::Object(m) => J::Object(m.iter().map(|(k, v)| (k.clone(), round_numbers(v))).collect()),
        J::Array(a) => J::Array(a.iter().map(round_numbers).collect()),
        other => other.clone(),
    }
}
fn normal(rows: &[String], tolerant: bool) -> Vec<String> {
    if !tolerant { return rows.to_vec(); }
    rows.iter().map(|r| round_numbers(&serde_json::from_str(r).unwrap()).to_string()).collect()
}

fn check_permutations(st: &str, multiset: &[&str], tolerant: bool) -> Result<(), String> {
    let reference = q(T, st, multiset);
    let ref_rows = match &reference { Outcome::Lines(l, _) => normal(l, tolerant), other => return Err(format!("{} over {:?}: {:?}", st, multiset, other)) };
    for p in permutations(multiset) {
        match q(T, st, &p) {
            Outcome::Lines(l, _) => if normal(&l, tolerant) != ref_rows { return Err(format!("{} over {:?} prints {:?}; over the permutation {:?} it prints {:?}", st, multiset, ref_rows, p, l)); },
            other => return Err(format!("{} over {:?} has a result but over the permutation {:?} it gives {:?}", st, multiset, p, other)),
        }
    }
    Ok(())
}

/// the table on the screen when a table is produced after every line (what follow mode does): the same for every permutation,
/// and the table a single run over the multiset prints
fn check_permutations_refreshed(st: &str, multiset: &[&str]) -> Result<(), String> {
    let reference = match q(T, st, multiset) { Outcome::Lines(l, _) => l, other => return Err(format!("{} over {:?}: {:?}", st, multiset, other)) };
    for p in permutations(multiset) {
        let shown = incremental(T, st, &p).map_err(|e| format!("{} over {:?} line by line: {}", st, p, e))?;
        let last = shown.into_iter().flatten().last().unwrap_or_default();
        if last != reference { return Err(format!("{} with the table produced after every line of {:?} ends with {:?}; one run over the same lines prints {:?}", st, p, last, reference)); }
    }
    Ok(())
}

/// key -> (count, sum, min, max) from the printed table of COMBINE
const COMBINE: &str = "SELECT k, COUNT(*) AS n, COUNT(v) AS c, SUM(v) AS s, MIN(v) AS lo, MAX(v) AS hi FROM t GROUP BY k";
fn table(rows: &[String]) -> std::collections::BTreeMap<String, (i64, i64, Option<i64>, Option<i64>, Option<i64>)> {
    let mut out = std::collections::BTreeMap::new();
    for r in rows {
        let v: serde_json::Value = serde_json::from_str(r).unwrap();
        out.insert(v["k"].to_string(), (v["n"].as_i64().unwrap(), v["c"].as_i64().unwrap(), v["s"].as_i64(), v["lo"].as_i64(), v["hi"].as_i64()));
    }
    out
}
fn check_cut(input: &[&str], cut: usize) -> Result<(), String> {
    let get = |lines: &[&str]| match q(T, COMBINE, lines) { Outcome::Lines(l, _) => Ok(table(&l)), other => Err(format!("{:?}", other)) };
    let (whole, a, b) = (get(input)?, get(&input[..cut])?, get(&input[cut..])?);
    let mut combined = a.clone();
    for (k, y) in &b {
        let e = combined.entry(k.clone()).or_insert((0, 0, None, None, None));
        let opt = |p: Option<i64>, q: Option<i64>, f: fn(i64, i64) -> i64| match (p, q) { (Some(x), Some(y)) => Some(f(x, y)), (x, None) => x, (None, y) => y };
        *e = (e.0 + y.0, e.1 + y.1, opt(e.2, y.2, |x, y| x + y), opt(e.3, y.3, std::cmp::min), opt(e.4, y.4, std::cmp::max));
    }
    // the two parts given as two input files, the first one with and without a line feed after its last line
    if cut > 0 && cut < input.len() {
        for terminated in [true, false] {
            let mut first = join_lines(&input[..cut]);
            if !terminated { first.pop(); }
            match run_opts(T, COMBINE, &[first, join_lines(&input[cut..])], json_opts()) {
                Outcome::Lines(l, _) => if table(&l) != whole { return Err(format!("{} over the files {:?} (last line {}) and {:?} gives {:?}; over one file with the same lines {:?}", COMBINE, &input[..cut], if terminated { "terminated" } else { "without line feed" }, &input[cut..], table(&l), whole)); },
                other => return Err(format!("{:?}", other)),
            }
        }
    }
    if whole == combined { Ok(()) } else { Err(format!("{} over {:?} gives {:?}; the key-wise combination of the results over {:?} and {:?} is {:?}", COMBINE, input, whole, &input[..cut], &input[cut..], combined)) }
}

#[test]
fn verif_grid() {
    let mut g = Grid::new("c15");
    let pool = ["k=a v=1", "k=a v=2", "k=b v=1", "k=b v=", "k=a v=-3", "k=c v=7", "k=a v="];
    let statements = [
        "SELECT k, COUNT(*) AS n, COUNT(v) AS c, SUM(v) AS s, MIN(v) AS lo, MAX(v) AS hi FROM t GROUP BY k",
        "SELECT COUNT(DISTINCT v) AS d, AVG(v) AS a FROM t",
        "SELECT k, PERCENTILE(v, 0.5) AS med, PERCENTILE(v, 0.0) AS p0, PERCENTILE(v, 1.0) AS p1 FROM t GROUP BY k",
        "SELECT k, BOOL_AND(v > 0) AS every, BOOL_OR(v > 1) AS some FROM t GROUP BY k",
        "SELECT k, SUM(v) AS s FROM t WHERE v IS NOT NULL GROUP BY k HAVING COUNT(*) > 1",
        "SELECT v, COUNT(*) AS n, MIN(k) AS first, MAX(k) AS last FROM t GROUP BY v",
        "SELECT k, COUNT(DISTINCT v) AS d FROM t GROUP BY k",
        "SELECT v, COUNT(DISTINCT k) AS d FROM t GROUP BY v HAVING COUNT(DISTINCT k) >= 1",
    ];
    // multisets = non-decreasing index sequences
    let idx: Vec<String> = (0..pool.len()).map(|i| i.to_string()).collect();
    let idx_refs: Vec<&str> = idx.iter().map(|s| s.as_str()).collect();
    let mut mi = 0usize;
    for seq in sequences(&idx_refs, 4) {
        let ids: Vec<usize> = seq.iter().map(|s| s.parse().unwrap()).collect();
        if ids.len() < 2 || ids.windows(2).any(|w| w[0] > w[1]) { continue; }
        mi += 1;
        let multiset: Vec<&str> = ids.iter().map(|i| pool[*i]).collect();
        for (si, st) in statements.iter().enumerate() {
            if ids.len() == 4 && left_out(mi + si, 2) { continue; }
            let m = multiset.clone();
            g.case(&format!("perm-m{}-s{}", mi, si), move || check_permutations(st, &m, false));
        }
        if ids.len() <= 3 {
            for si in [0usize, 1, 2, 3, 6] {
                let (m, st) = (multiset.clone(), statements[si]);
                g.case(&format!("perm-refreshed-m{}-s{}", mi, si), move || check_permutations_refreshed(st, &m));
            }
        }
        if ids.len() <= 3 || mi % 3 == 0 {
            let m = multiset.clone();
            g.case(&format!("perm-m{}-spread", mi), move || check_permutations("SELECT k, STDDEV(v) AS sd, VARIANCE(v) AS var FROM t GROUP BY k", &m, true));
        }
    }
    // large INT values: neighbours of 2^53, of 10^8 / 10^9 and the 64-bit ends (sums that fit) - exact, whatever the order
    {
        let big = ["k=a v=9007199254740993", "k=a v=9007199254740992", "k=a v=9007199254740994", "k=b v=-9007199254740993", "k=b v=-9007199254740992", "k=a v=100000001", "k=a v=100000003", "k=a v=999999999", "k=b v=1000000007",
                   "k=c v=9223372036854775806", "k=c v=-9223372036854775807"];
        let idx: Vec<String> = (0..big.len()).map(|i| i.to_string()).collect();
        let idx_refs: Vec<&str> = idx.iter().map(|s| s.as_str()).collect();
        let mut mi = 0usize;
        for seq in sequences(&idx_refs, 3) {
            let ids: Vec<usize> = seq.iter().map(|s| s.parse().unwrap()).collect();
            if ids.len() < 2 || ids.windows(2).any(|w| w[0] >= w[1]) { continue; }
            mi += 1;
            let multiset: Vec<&str> = ids.iter().map(|i| big[*i]).collect();
            for (si, st) in ["SELECT k, MIN(v) AS lo, MAX(v) AS hi, COUNT(DISTINCT v) AS d FROM t GROUP BY k", "SELECT MIN(v) AS lo, MAX(v) AS hi FROM t",
                             "SELECT k, STDDEV(v) AS sd, VARIANCE(v) AS var FROM t WHERE v < 2000000000 AND v > 0 GROUP BY k", "SELECT k, PERCENTILE(v, 0.5) AS med FROM t GROUP BY k"].iter().enumerate() {
                if left_out(mi + si, 2) && ids.len() == 3 { continue; }
                let m = multiset.clone();
                g.case(&format!("big-m{}-s{}", mi, si), move || check_permutations(st, &m, false));
            }
        }
    }
    // a dozen values around 10^8..7*10^8 (their squares need more than 53 bits): reversed, rotated, swapped
    {
        let sizes = [690000017i64, 120000003, 250000001, 650000007, 150000007, 675000011, 580000021, 410000009, 620000013, 333333337, 101000001, 268435459];
        let lines: Vec<String> = sizes.iter().enumerate().map(|(i, v)| format!("k={} v={}", if i % 3 == 0 { "a" } else { "b" }, v)).collect();
        let query = "SELECT k, COUNT(*) AS n, SUM(v) AS total, VARIANCE(v) AS var, STDDEV(v) AS sd, AVG(v) AS mean FROM t GROUP BY k";
        let mut orders: Vec<Vec<String>> = Vec::new();
        let mut r = lines.clone(); r.reverse(); orders.push(r);
        for shift in [1usize, 5, 7] { let mut o = lines.clone(); o.rotate_left(shift); orders.push(o); }
        let mut o = lines.clone(); o.swap(0, 11); o.swap(3, 4); orders.push(o);
        for (oi, order) in orders.into_iter().enumerate() {
            let lines = lines.clone();
            g.case(&format!("large-values-order-{}", oi), move || {
                let a: Vec<&str> = lines.iter().map(|s| s.as_str()).collect();
                let b: Vec<&str> = order.iter().map(|s| s.as_str()).collect();
                match (q(T, query, &a), q(T, query, &b)) {
                    (Outcome::Lines(x, _), Outcome::Lines(y, _)) => if x == y { Ok(()) } else { Err(format!("{} over 12 large values prints {:?}; over a permutation of the same lines it prints {:?}", query, x, y)) },
                    other => Err(format!("{:?}", other)),
                }
            });
        }
    }
    // COUNT(DISTINCT) over more distinct values than a small inline store would hold, repeats before and after every size
    {
        let mut values: Vec<i64> = (1..=20).collect();
        values.extend_from_slice(&[9, 9, 10, 1, 5, 17, 18, 18, 20, 8]);
        let lines: Vec<String> = values.iter().map(|v| format!("k=a v={}", v)).collect();
        let mut orders: Vec<Vec<String>> = vec![lines.clone(), lines.iter().rev().cloned().collect()];
        for shift in 1..lines.len() { let mut o = lines.clone(); o.rotate_left(shift); orders.push(o); }
        let mut repeats_first = lines[20..].to_vec(); repeats_first.extend_from_slice(&lines[..20]); orders.push(repeats_first);
        let mut pairs: Vec<String> = Vec::new(); for v in 1..=20 { pairs.push(format!("k=a v={}", v)); pairs.push(format!("k=a v={}", v)); } orders.push(pairs);
        for (oi, order) in orders.into_iter().enumerate() {
            g.case(&format!("count-distinct-many-{}", oi), move || {
                let refs: Vec<&str> = order.iter().map(|s| s.as_str()).collect();
                for query in ["SELECT COUNT(DISTINCT v) AS d FROM t", "SELECT k, COUNT(DISTINCT v) AS d, COUNT(v) AS c FROM t GROUP BY k"] {
                    match q(T, query, &refs) { Outcome::Lines(l, _) => if l.len() != 1 || !l[0].contains("\"d\":20") { return Err(format!("{} over {} lines holding the 20 values 1..20 (some repeated) in the order {:?} prints {:?}", query, refs.len(), refs.iter().map(|r| &r[6..]).collect::<Vec<_>>(), l)); }, other => return Err(format!("{:?}", other)) }
                }
                Ok(())
            });
        }
    }
    // MIN / MAX of TEXT values that look like numbers, mixed with ones that do not: the same in every order
    {
        let pool = ["2", "10", "1x", "x1", "010", "9", "1e1", "_"];
        for a in 0..pool.len() { for b in a + 1..pool.len() { for c in b + 1..pool.len() {
            let texts = [pool[a], pool[b], pool[c]];
            g.case(&format!("text-extremes-{}-{}-{}", a, b, c), move || {
                let lines: Vec<String> = texts.iter().map(|t| format!("k={} v=1", t)).collect();
                let refs: Vec<&str> = lines.iter().map(|l| l.as_str()).collect();
                let st = "SELECT MIN(k) AS lo, MAX(k) AS hi FROM t";
                check_permutations(st, &refs, false)?;
                check_permutations("SELECT v, MAX(k) AS hi, MIN(k) AS lo FROM t GROUP BY v", &refs, false)?;   // (which text is the smallest is C04's business)
                Ok(())
            });
        } } }
    }
    // MIN / MAX of an array-valued argument and AVG of REAL values whose sums are exact: the same in every order
    {
        let def = "CREATE TABLE t(line = '^k=(\\\\w+) a=([0-9]*),([0-9]*) r=(\\\\S+)$', line[1] => k TEXT, line[2], line[3] => xs INT[], line[4] => r REAL);";
        let lines = vec!["k=a a=2,1 r=0.25", "k=a a=1,9 r=1.75", "k=a a=3,0 r=4.5", "k=a a=1,2 r=0.5", "k=b a=,5 r=2.0"];
        for (si, st) in ["SELECT k, MIN(xs) AS lo, MAX(xs) AS hi FROM t GROUP BY k", "SELECT k, AVG(r) AS a, SUM(r) AS s FROM t GROUP BY k", "SELECT AVG(r) AS a FROM t WHERE k = 'a'", "SELECT MAX(xs) AS hi FROM t"].iter().enumerate() {
            let l2 = lines.clone();
            g.case(&format!("arrays-and-exact-reals-{}", si), move || {
                let reference = match q(def, st, &l2) { Outcome::Lines(l, _) => l, other => return Err(format!("{}: {:?}", st, other)) };
                if si == 2 && reference != vec![r#"{"a":1.75}"#.to_owned()] { return Err(format!("{} over 0.25, 1.75, 4.5, 0.5 printed {:?}; the sum 7 and the quotient 1.75 are exact", st, reference)); }
                for p in permutations(&l2) {
                    match q(def, st, &p) { Outcome::Lines(l, _) => if l != reference { return Err(format!("{} over {:?} prints {:?}; over the permutation {:?} it prints {:?}", st, l2, reference, p, l)); }, other => return Err(format!("{:?}", other)) }
                }
                Ok(())
            });
        }
    }
    // a line is the same row wherever it stands: first or last in the input, first in a second file (a line that starts with a byte order mark, blanks, a tab)
    {
        let def = "CREATE TABLE t(line = split ',', line[1] => k TEXT, line[2] => v INT);";
        let st = "SELECT k, COUNT(*) AS n, SUM(v) AS s, MIN(v) AS lo, MAX(v) AS hi FROM t GROUP BY k";
        for (wi, odd) in ["\u{feff}a,1", " a,1", "\ta,1", "a,1 ", "\u{feff}", ",7"].iter().enumerate() {
            let lines = vec![*odd, "a,2", "b,3"];
            g.case(&format!("odd-line-position-{}", wi), move || {
                let reference = match q(def, st, &lines) { Outcome::Lines(l, _) => l, other => return Err(format!("{:?}", other)) };
                for p in permutations(&lines) {
                    match q(def, st, &p) { Outcome::Lines(l, _) => if l != reference { return Err(format!("{} over {:?} prints {:?}; over the permutation {:?} it prints {:?}", st, lines, reference, p, l)); }, other => return Err(format!("{:?}", other)) }
                    for cut in 1..p.len() {
                        match q_files(def, st, &[p[..cut].to_vec(), p[cut..].to_vec()]) { Outcome::Lines(l, _) => if l != reference { return Err(format!("{} over {:?} prints {:?}; over the same lines as the two files {:?} and {:?} it prints {:?}", st, lines, reference, &p[..cut], &p[cut..], l)); }, other => return Err(format!("{:?}", other)) }
                    }
                }
                Ok(())
            });
        }
    }
    for (bi, base) in sequences(&pool[..6], 4).into_iter().enumerate() {
        if base.len() < 2 || (base.len() == 4 && left_out(bi, 5)) { continue; }
        for cut in 0..=base.len() {
            let b1 = base.clone();
            g.case(&format!("cut-b{}-at{}", bi, cut), move || check_cut(&b1, cut));
        }
    }
    g.done();
}
