// Bounded stand-in for C10 (follow mode delivers every completed line exactly once, in order).
#![allow(dead_code, unused_imports)]
// Oracle (from the statement): while a file grows, every newline-terminated line appended to it is delivered exactly once,
// in order, character for character without the newline, however the appends are chunked and however they interleave with
// the reader's polls or fall relative to its buffer; an unterminated tail is never delivered.  With --head delivery starts
// at the first byte, otherwise at the first byte appended after start-up.
// Grid: FollowFileIterator over a file that a writer thread appends to: 8 contents (ASCII, a leading byte order mark, multi-byte characters, empty
// lines, CRLF, a line of 20000 bytes, an unterminated tail that is completed later) x chunkings (single bytes, 2, 3, 5, 7,
// 4096, cuts around every newline and inside every multi-byte character) x reader buffer sizes (1, 2, 3, 16, 8192) x
// writer pauses (none / 1 ms); the reader asks for exactly as many lines as will ever be completed.  Start position:
// FollowFileExecutor (standard output captured) with and without --head on files that do / do not end in a newline at start-up.
// Also: a writer that stalls for 0.7 s / 1.5 s in the middle of a line.
include!("verif_grid_common.rs");
use std::io::{BufReader, Read};
use std::sync::mpsc;
use std::time::Duration;
use sqlgrep::helpers::FollowFileIterator;

fn complete_lines(content: &[u8]) -> Vec<String> {
    let mut out = Vec::new();
    let mut start = 0;
    for (i, byte) in content.iter().enumerate() { if *byte == b'\n' { out.push(String::from_utf8_lossy(&content[start..i]).into_owned()); start = i + 1; } }
    out
}

fn follow(content: &[u8], cuts: &[usize], capacity: usize, pause_ms: u64) -> Result<(), String> {
    let path = temp_path("follow");
    File::create(&path).unwrap();
    let expected = complete_lines(content);
    let reader_file = File::open(&path).unwrap();
    let n = expected.len();
    let (tx, rx) = mpsc::channel::<String>();
    let reader = std::thread::spawn(move || {
        let mut it = FollowFileIterator::new(BufReader::with_capacity(capacity, reader_file));
        for _ in 0..n { match it.next() { Some(line) => { if tx.send(line).is_err() { return; } }, None => return } }
    });
    {
        let mut f = std::fs::OpenOptions::new().append(true).open(&path).unwrap();
        let mut at = 0;
        for cut in cuts.iter().chain(std::iter::once(&content.len())) {
            if *cut > at { f.write_all(&content[at..*cut]).unwrap(); f.flush().unwrap(); at = *cut; if pause_ms > 0 { std::thread::sleep(Duration::from_millis(pause_ms)); } else { std::thread::yield_now(); } }
        }
    }
    let mut got = Vec::new();
    for _ in 0..n { match rx.recv_timeout(Duration::from_secs(if got.is_empty() { 20 } else { 3 })) { Ok(l) => got.push(l), Err(_) => break } }
    let _ = std::fs::remove_file(&path);
    if got.len() == n { let _ = reader.join(); }
    let shorten = |v: &Vec<String>| v.iter().map(|l| short(l)).collect::<Vec<_>>();
    if got == expected { Ok(()) } else { Err(format!("content {} appended in chunks ending at {:?}, reader buffer {} bytes: delivered {:?}, the completed lines are {:?}", show(content), &cuts[..cuts.len().min(12)], capacity, shorten(&got), shorten(&expected))) }
}

extern "C" { fn dup(fd: i32) -> i32; fn dup2(a: i32, b: i32) -> i32; fn close(fd: i32) -> i32; }

/// FollowFileExecutor prints to the process's standard output: run `body` with file descriptor 1 pointing at a file
fn with_stdout_captured<R>(body: impl FnOnce(&std::path::Path) -> R) -> (R, String) {
    use std::os::unix::io::AsRawFd;
    let out_path = temp_path("stdout");
    let out = File::create(&out_path).unwrap();
    std::io::stdout().flush().unwrap();
    let saved = unsafe { dup(1) };
    unsafe { dup2(out.as_raw_fd(), 1); }
    let r = body(&out_path);
    std::io::stdout().flush().unwrap();
    unsafe { dup2(saved, 1); close(saved); }
    let mut text = String::new();
    File::open(&out_path).and_then(|mut f| f.read_to_string(&mut text)).unwrap();
    let _ = std::fs::remove_file(&out_path);
    (r, text)
}

/// follow mode through FollowFileExecutor: the file holds `initial` when the executor is created (that is when the start
/// position is taken), then the appends happen while it runs; returns what it printed
fn follow_executor(initial: &[u8], head: bool, appends: &[&[u8]], expected_records: usize) -> Result<Vec<String>, String> {
    use sqlgrep::executor::FollowFileExecutor;
    let file = write_temp("followed", initial);
    let file2 = file.clone();
    let appends: Vec<Vec<u8>> = appends.iter().map(|a| a.to_vec()).collect();
    let (result, text) = with_stdout_captured(move |out_path| -> Result<(), String> {
        let running = Arc::new(AtomicBool::new(true));
        let running2 = running.clone();
        let path = file2.clone();
        let (ready_tx, ready_rx) = mpsc::channel::<()>();
        let (go_tx, go_rx) = mpsc::channel::<()>();
        let worker = std::thread::spawn(move || -> Result<(), String> {
            let tables = tables("CREATE TABLE t(line = '(.*)', line[1] => x TEXT);")?;
            let statement = parsing::parse("SELECT x FROM t").map_err(|e| format!("{}", e))?;
            let mut executor = FollowFileExecutor::new(running2, File::open(&path).map_err(|e| e.to_string())?, head, Default::default(), ExecutionEngine::new(&tables, &statement)).map_err(|e| e.to_string())?;
            let _ = ready_tx.send(());   // the start position has been taken (start-up = the construction of the executor)
            let _ = go_rx.recv_timeout(Duration::from_secs(5));   // the first append happens between start-up and the first poll
            executor.execute().map_err(|e| format!("{}", e))
        });
        // append only after the executor has taken its start position
        if ready_rx.recv_timeout(Duration::from_secs(10)).is_err() { return match worker.join() { Ok(Err(e)) => Err(e), _ => Err("the executor was not created".to_owned()) }; }
        for a in &appends {
            let mut f = std::fs::OpenOptions::new().append(true).open(&file2).map_err(|e| e.to_string())?;
            f.write_all(a).map_err(|e| e.to_string())?;
            drop(f);
            let _ = go_tx.send(());
            std::thread::sleep(Duration::from_millis(30));
        }
        let _ = go_tx.send(());
        // wait for the records, then stop the executor: clear the flag and complete one more line
        let t0 = std::time::Instant::now();
        loop {
            let mut text = String::new();
            let _ = File::open(out_path).and_then(|mut f| f.read_to_string(&mut text));
            if text.lines().count() >= expected_records || t0.elapsed() > Duration::from_secs(20) { break; }
            std::thread::sleep(Duration::from_millis(20));
        }
        std::thread::sleep(Duration::from_millis(100));
        running.store(false, Ordering::SeqCst);
        let mut f = std::fs::OpenOptions::new().append(true).open(&file2).map_err(|e| e.to_string())?;
        f.write_all(b"stop\n").map_err(|e| e.to_string())?;
        drop(f);
        let t1 = std::time::Instant::now();
        while !worker.is_finished() && t1.elapsed() < Duration::from_secs(20) { std::thread::sleep(Duration::from_millis(20)); }
        if worker.is_finished() { worker.join().map_err(|_| "the executor panicked".to_owned())? } else { Err("the executor did not stop after the interrupt".to_owned()) }
    });
    let _ = std::fs::remove_file(&file);
    result?;
    Ok(text.lines().map(|l| l.to_owned()).collect())
}

#[test]
fn verif_grid() {
    let mut g = Grid::new("c10");
    let long = "y".repeat(20000);
    let contents: Vec<Vec<u8>> = vec![
        b("one\ntwo\nthree\n"), b("\n\nx\n\n"), b("naïve – ünï\n日本語 \u{1F600}\nz\n"), b("a\r\nb\r\n"), b(&format!("{}\nshort\n{}\n", long, long)), b("done\ntail without newline"), b("é\n"), b("\u{feff}first\n\u{feff}second\n"),
    ];
    for (ci, content) in contents.iter().enumerate() {
        let mut chunkings: Vec<Vec<usize>> = Vec::new();
        for step in [1usize, 2, 3, 5, 7, 4096] { if content.len() > 200 && step < 7 { continue; } chunkings.push((1..content.len()).filter(|i| i % step == 0).collect()); }
        chunkings.push(Vec::new());
        // cuts around every newline and inside every multi-byte character
        let mut special: Vec<usize> = Vec::new();
        for (i, byte) in content.iter().enumerate() { if *byte == b'\n' { special.push(i); special.push(i + 1); } if *byte >= 0x80 { special.push(i); } }
        special.retain(|i| *i > 0 && *i < content.len()); special.sort(); special.dedup();
        if content.len() <= 200 { for i in 0..special.len() { chunkings.push(vec![special[i]]); if i + 1 < special.len() { chunkings.push(vec![special[i], special[i + 1]]); } } }
        chunkings.push(special.clone());
        if content.len() > 200 { chunkings.push(vec![8191]); chunkings.push(vec![8192, 8193]); chunkings.push(vec![100, 9000, 19999, 20000, 20001]); }
        for (ki, cuts) in chunkings.iter().enumerate() {
            for capacity in [1usize, 2, 3, 16, 8192] {
                if content.len() > 200 && capacity < 16 { continue; }
                for pause in [0u64, 1] {
                    if pause == 1 && cuts.len() > 40 { continue; }
                    let (content, cuts) = (content.clone(), cuts.clone());
                    g.case(&format!("iterator-c{}-k{}-cap{}-p{}", ci, ki, capacity, pause), move || follow(&content, &cuts, capacity, pause));
                }
            }
        }
    }
    // a writer that stalls in the middle of a line for longer than any polling interval: the line is delivered whole, once
    for (i, stall_ms) in [700u64, 1500].iter().enumerate() {
        let stall = *stall_ms;
        g.case(&format!("stalled-writer-{}", i), move || {
            let path = temp_path("follow");
            File::create(&path).unwrap();
            let reader_file = File::open(&path).unwrap();
            let (tx, rx) = mpsc::channel::<String>();
            let reader = std::thread::spawn(move || { let mut it = FollowFileIterator::new(BufReader::new(reader_file)); for _ in 0..3 { match it.next() { Some(l) => { if tx.send(l).is_err() { return; } }, None => return } } });
            let append = |bytes: &[u8]| { let mut f = std::fs::OpenOptions::new().append(true).open(&path).unwrap(); f.write_all(bytes).unwrap(); };
            append(b"first\nsec");
            std::thread::sleep(Duration::from_millis(stall));
            append(b"ond\n");
            std::thread::sleep(Duration::from_millis(stall));
            append(b"third\n");
            let mut got = Vec::new();
            for _ in 0..3 { match rx.recv_timeout(Duration::from_secs(10)) { Ok(l) => got.push(l), Err(_) => break } }
            let _ = std::fs::remove_file(&path);
            if got.len() == 3 { let _ = reader.join(); }
            if got == vec!["first".to_owned(), "second".to_owned(), "third".to_owned()] { Ok(()) } else { Err(format!("`first\\nsec`, a pause of {} ms, `ond\\n`, a pause, `third\\n`: delivered {:?}", stall, got)) }
        });
    }
    // start position (FollowFileExecutor::new takes it): without --head only what is appended afterwards, with --head everything
    for (i, (initial, head)) in [("old1\nold2\n", false), ("old1\nold2", false), ("", false), ("old1\nold2\n", true), ("old1\nold2", true), ("", true)].iter().enumerate() {
        g.case(&format!("start-position-{}", i), move || {
            let appended = "new1\nnew2\nnew3\n";
            let all = if *head { format!("{}{}", initial, appended) } else { appended.to_owned() };
            let want: Vec<String> = complete_lines(all.as_bytes()).into_iter().map(|l| format!("x: '{}'", l)).collect();
            let got = follow_executor(initial.as_bytes(), *head, &[b"new1\n", b"new2\nnew", b"3\n"], want.len())?;
            if got == want { Ok(()) } else { Err(format!("the file holds {:?} at start-up ({}), then new1\\n, new2\\nnew, 3\\n are appended: printed {:?}, expected {:?}", initial, if *head { "--head" } else { "no --head" }, got, want)) }
        });
    }
    g.done();
}
