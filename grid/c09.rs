// Bounded stand-in for C09 (execution is total: any data gives results or an error message, never a crash).
#![allow(dead_code, unused_imports)]
// Oracle (from the statement): whatever the data holds, a run ends with output or with a reported error - a panic is a
// violation.  ("Never silently wraps a number" needs a reference value: the arithmetic part of it is in grid c03.)
// Grid: 64 expressions / aggregates / functions (arithmetic, casts, subscripts, array and timestamp functions, EXTRACT,
// date_trunc, make_timestamp, every aggregate) x 29 lines (64-bit extremes, NaN and infinities as REAL text, zero divisors,
// huge and negative subscripts, absent groups, NULL everywhere, out-of-range date parts, dates in DST gaps of common zones,
// malformed JSON) x 3 output formats, one line per run and all lines in one run.
// Also: 11 timestamps around the clock changes of Europe/Stockholm, America/Havana (midnight) and Australia/Lord_Howe (half an hour) x 11 local-time
// expressions with TZ set to each zone in turn; 22 x 22 lines of short / non-ASCII / numeric words through TIMESTAMP (numeric and month-name), INT, REAL, INTERVAL, BOOLEAN and array columns over captures that admit any text.
include!("verif_grid_common.rs");
include!("verif_grid_qcommon.rs");

const DEF: &str = "CREATE TABLE t(line = 'a=(-?[0-9]*) b=(-?[0-9]*) x=(\\\\S*) s=(\\\\S*)', arr = 'arr=([0-9]*),([0-9]*),([0-9]*)', d = 'd=([0-9]+)-([0-9]+)-([0-9]+) ([0-9]+):([0-9]+):([0-9]+)', \
    line[1] => a INT, line[2] => b INT, line[3] => x REAL, line[4] => s TEXT, arr[1], arr[2], arr[3] => xs INT[], d[1], d[2], d[3], d[4], d[5], d[6] => ts TIMESTAMP, \
    { .j.k } => jk INT, { .j.list[1] } => jl REAL, 'i=(\\\\S+)' => iv INTERVAL);";

#[test]
fn verif_grid() {
    let mut g = Grid::new("c09");
    let expressions = [
        "a + b", "a - b", "a * b", "a / b", "-a", "a + 1", "a - 1", "a * -1", "a / -1", "b / a", "x + 1.5", "x * x", "x / 0.0", "x / x", "-x", "a + x", "a / x",
        "abs(a)", "abs(x)", "sqrt(x)", "sqrt(a)", "pow(a, b)", "pow(x, 2)", "pow(2, a)", "greatest(a, b)", "least(a, x)", "length(s)", "upper(s)", "lower(s)", "regexp_matches(s, s)", "regexp_matches(s, '(')",
        "a::real", "x::int", "s::int", "s::real", "a::text", "x::text", "s::boolean", "a::boolean",
        "xs[1]", "xs[0]", "xs[a]", "xs[-1]", "xs[9223372036854775807]", "array_length(xs)", "array_unique(xs)", "array_cat(xs, xs)", "array_append(xs, a)", "array_prepend(a, xs)", "create_array(a, b)",
        "EXTRACT(EPOCH FROM ts)", "EXTRACT(YEAR FROM ts)", "EXTRACT(SECOND FROM ts)", "date_trunc('hour', ts)", "date_trunc('day', ts)", "date_trunc('year', ts)", "ts - ts", "ts + iv", "ts - iv", "iv + iv", "iv * 2", "iv / a",
        "make_timestamp(a, b, 1, 0, 0, 0, 0)", "make_timestamp(2021, 3, 28, a, b, 0, 0)", "CASE WHEN a > b THEN a / b ELSE b / a END", "a IN (b, 1)", "jk + a", "jl / x",
    ];
    let aggregates = ["COUNT(*)", "COUNT(a)", "COUNT(DISTINCT x)", "SUM(a)", "SUM(x)", "AVG(a)", "AVG(x)", "AVG(iv)", "MIN(x)", "MAX(s)", "MIN(ts)", "STDDEV(a)", "VARIANCE(x)", "PERCENTILE(a, 0.5)", "PERCENTILE(x, 1.0)",
                      "PERCENTILE(a, 0.0)", "BOOL_AND(a > b)", "BOOL_OR(x > 0.0)", "STRING_AGG(s, ',')", "ARRAY_AGG(a)", "ARRAY_AGG(x)", "SUM(a) + 1", "MAX(a) - 1", "SUM(iv)"];
    let lines = [
        "a=1 b=2 x=1.5 s=abc arr=1,2,3 d=2020-01-02 03:04:05 i=1:2:3 {\"j\": {\"k\": 1, \"list\": [1, 2.5]}}",
        "a=9223372036854775807 b=1 x=1e308 s=( arr=9223372036854775807,0,1 d=2020-12-31 23:59:59 i=2562047788015:0:0",
        "a=-9223372036854775808 b=-1 x=-1e308 s=[a-z arr=,, d=9999-12-31 23:59:59 i=-2562047788015:59:59",
        "a=0 b=0 x=0.0 s= arr=0,0,0 d=0000-00-00 00:00:00 i=0:0:0",
        "a=-1 b=0 x=-0.0 s=\\ arr=1,,3 d=2020-02-30 12:00:00 i=1:60:60",
        "a=5 b=-9223372036854775808 x=NaN s=NaN arr=3 d=2021-03-28 02:30:00 i=x",
        "a=2 b=63 x=inf s=inf arr=1,2 d=2021-03-14 02:30:00 i=9223372036854775807:0:0",
        "a=2 b=64 x=-inf s=-1 d=2020-13-45 25:61:61 i=0:9223372036854775807:0",
        "a=10 b=400 x=1e-320 s=9223372036854775808 d=4294967297-01-01 00:00:00 i=0:0:9223372036854775807",
        "a=-9223372036854775808 b=9223372036854775807 x=1.0 s=x arr=1,2,3 d=2020-01-01 00:00:00 i=1:1:1", "a=9223372036854775807 b=-9223372036854775808 x=-1.0 s=y arr=3,2,1 i=-1:-1:-1",
        "a=0 b=-1 x=0.5 s=z arr=5,6,7", "a= b= x= s= ", "a=1 b= x=abc s=x", "a=99999999999999999999 b=1 x=1e999 s=y", "", "garbage", "{\"j\": {\"k\": 9223372036854775808, \"list\": [1, 1e999]}}", "{\"j\": {\"k\": \"x\", \"list\": []}} a=1 b=1 x=1 s=1",
        "{\"j\": [1, 2]", "{\"j\": {\"k\": 1.5, \"list\": [null, null]}} a=3 b=3 x=3 s=3", "a=3 b=2 x=2.5 s=\u{1F600}\u{e9} arr=1,2,3", "a=-3 b=2 x=-2.5 s=%s%n arr=18446744073709551615,1,1",
        "a=4611686018427387904 b=2 x=4.0 s=a arr=2,2,2 d=1969-12-31 23:59:59 i=-0:0:1", "a=3037000500 b=3037000500 x=9.9e307 s=b d=1970-01-01 00:00:00 i=00:00:00",
        "a=-4611686018427387905 b=2 x=2.2250738585072014e-308 s=c d=2038-01-19 03:14:08 i=596523:14:07", "a=7 b=7 x=7 s=7 arr=7,7,7 d=2262-04-11 23:47:17 i=1:1",
        "a=1 b=1 x=1 s=1 d=275760-09-13 00:00:00 i=1:1:1:1", "a=1 b=1 x=1 s=1 d=2020-1-1 1:1:1 i=+1:+1:+1",
    ];
    let formats = [("text", OutputFormat::Text), ("json", OutputFormat::Json), ("csv", OutputFormat::CSV(";".to_owned()))];
    let all: Vec<u8> = join_lines(&lines);
    for (ei, e) in expressions.iter().enumerate() {
        for (fi, (fname, format)) in formats.iter().enumerate() {
            // projections: one line per run would hide nothing but cost much; run all lines, then each line alone for one format
            let (query, format2, all2) = (format!("SELECT {} AS v, input FROM t", e), format.clone(), all.clone());
            g.case(&format!("expr-{}-all-{}", ei, fname), move || match run_opts(DEF, &query, &[all2], DisplayOptions { output_format: format2, single_result: false, print_result: true }) {
                Outcome::Panic(p) => Err(format!("{} over the 26 lines panicked: {}", query, p)), _ => Ok(()) });
            if fi == 1 { for (li, line) in lines.iter().enumerate() {
                let (query, line) = (format!("SELECT {} AS v FROM t", e), line.to_string());
                g.case(&format!("expr-{}-line{}", ei, li), move || match run_opts(DEF, &query, &[b(&line)], json_opts()) {
                    Outcome::Panic(p) => Err(format!("{} on the line {:?} panicked: {}", query, line, p)), _ => Ok(()) });
                let (query, line) = (format!("SELECT input FROM t WHERE {} IS NOT NULL", e), lines[li].to_string());
                g.case(&format!("where-{}-line{}", ei, li), move || match run_opts(DEF, &query, &[b(&line)], json_opts()) {
                    Outcome::Panic(p) => Err(format!("{} on the line {:?} panicked: {}", query, line, p)), _ => Ok(()) });
            } }
        }
    }
    for (ai, a) in aggregates.iter().enumerate() {
        for (fname, format) in formats.iter() {
            for (gi, group) in ["", " GROUP BY s", " GROUP BY a, x", " GROUP BY ts"].iter().enumerate() {
                let (query, format2, all2) = (format!("SELECT {} AS v FROM t{}", a, group), format.clone(), all.clone());
                g.case(&format!("agg-{}-g{}-all-{}", ai, gi, fname), move || match run_opts(DEF, &query, &[all2], DisplayOptions { output_format: format2, single_result: false, print_result: true }) {
                    Outcome::Panic(p) => Err(format!("{} over the 26 lines panicked: {}", query, p)), _ => Ok(()) });
            }
        }
        // every pair of lines (partial sums near the ends of the range)
        for i in 0..lines.len() { for j in 0..lines.len() { if left_out(i + j + ai, 5) { continue; }
            let (query, two) = (format!("SELECT {} AS v FROM t", a), join_lines(&[lines[i], lines[j]]));
            g.case(&format!("agg-{}-pair-{}-{}", ai, i, j), move || match run_opts(DEF, &query, &[two], json_opts()) {
                Outcome::Panic(p) => Err(format!("{} over lines {} and {} panicked: {}", query, i, j, p)), _ => Ok(()) });
        } }
    }
    // no qualifying row at all: empty input, only non-admitted lines, a WHERE that rejects everything - with and without HAVING / GROUP BY
    for (ai, a) in aggregates.iter().enumerate() {
        for (ii, input) in [b(""), b("garbage\n\n"), join_lines(&[lines[0], lines[3]])].into_iter().enumerate() {
            for (si, shape) in ["SELECT {} AS v FROM t WHERE a > 9223372036854775806 AND a < 0", "SELECT {} AS v FROM t WHERE a IS NULL AND a IS NOT NULL HAVING COUNT(*) >= 0",
                                "SELECT {} AS v FROM t WHERE x != x HAVING COUNT(*) > 5", "SELECT s, {} AS v FROM t WHERE a = 1 AND a = 2 GROUP BY s HAVING COUNT(*) >= 0", "SELECT {} AS v FROM t HAVING COUNT(*) > 1000"].iter().enumerate() {
                let (query, input) = (shape.replace("{}", a), input.clone());
                g.case(&format!("no-row-agg{}-i{}-s{}", ai, ii, si), move || match run_opts(DEF, &query, &[input], json_opts()) {
                    Outcome::Panic(p) => Err(format!("{} over an input without a qualifying row panicked: {}", query, p)), _ => Ok(()) });
            }
        }
    }
    // loose patterns: the text that reaches a typed column is whatever the line holds - short, long, non-ASCII, empty
    {
        let loose = "CREATE TABLE t(line = '^(\\\\S*) (\\\\S*) (\\\\S*)( \\\\S*)?', line[3], line[2], line[1] => ts TIMESTAMP, line[1], line[2], line[3] => dmy TIMESTAMP, line[1] => n INT, line[2] => r REAL, \
                     line[3] => iv INTERVAL, line[1], line[2] => xs INT[], line[2] => t TEXT TRIM, line[4] => b BOOLEAN, line[2], line[3] => rs REAL[]);";
        let words = ["", "J", "Ju", "Jun", "June", "ao\u{fb}t", "\u{fb}", "\u{444}\u{435}\u{432}", "d\u{e9}c", "ma\u{ef}", "\u{1f600}", "12", "0", "-1", "13", "2020", "99999999999999999999", "1e999", "nan", "1:2:3", "::", "\u{a0}x\u{a0}"];
        for (i, first) in words.iter().enumerate() {
            for (j, second) in words.iter().enumerate() {
                let line = format!("{} {} {} x", first, second, words[(i + j) % words.len()]);
                g.case(&format!("loose-text-{}-{}", i, j), move || match run_opts(loose, "SELECT * FROM t", &[b(&line)], json_opts()) {
                    Outcome::Panic(p) => Err(format!("the line {:?} through columns of every type over loose captures: panic {}", line, p)), _ => Ok(()) });
            }
        }
    }
    // whatever the local time zone is: timestamps in the hour that is skipped / repeated when the clocks change, in zones that change at 02:00 / 03:00 and at midnight
    // (this test runs its cases one after the other on one thread; TZ is put back afterwards)
    {
        let tdef = "CREATE TABLE t(line = '^ts=(\\\\d+)-(\\\\d+)-(\\\\d+) (\\\\d+):(\\\\d+):(\\\\d+)$', line[1], line[2], line[3], line[4], line[5], line[6] => ts TIMESTAMP, line[4] => h INT);";
        let saved = std::env::var("TZ").ok();
        for (zi, (zone, summer_noon_epoch)) in [("Europe/Stockholm", 1685613600i64), ("America/Havana", 1685635200), ("Australia/Lord_Howe", 1685583000), ("UTC", 1685620800)].iter().enumerate() {
            std::env::set_var("TZ", zone);
            std::thread::sleep(std::time::Duration::from_millis(1100));   // chrono looks at TZ again when its cached zone is older than a second
            let in_effect = match run_opts(tdef, "SELECT EXTRACT(EPOCH FROM ts) AS e FROM t", &[b("ts=2023-06-01 12:00:00\n")], json_opts()) { Outcome::Lines(l, _) => l == vec![format!("{{\"e\":{}.0}}", summer_noon_epoch)], _ => false };
            for (ti, stamp) in ["2023-10-29 02:30:00", "2023-10-29 02:00:00", "2023-10-29 03:00:00", "2023-03-26 02:30:00", "2023-03-26 03:00:00", "2021-11-07 00:30:00", "2021-11-07 00:00:00", "2021-03-14 00:30:00", "2023-04-02 01:45:00", "2023-10-01 02:15:00", "2023-06-01 12:00:00"].iter().enumerate() {
                for (ei, expr) in ["date_trunc('hour', ts)", "date_trunc('minute', ts)", "date_trunc('second', ts)", "date_trunc('day', ts)", "date_trunc('month', ts)", "EXTRACT(HOUR FROM ts)", "EXTRACT(EPOCH FROM ts)", "ts - date_trunc('day', ts)",
                                   "make_timestamp(EXTRACT(YEAR FROM ts), EXTRACT(MONTH FROM ts), EXTRACT(DAY FROM ts), h, 30, 0, 0)", "ts = '2023-10-29 02:30:00'", "date_trunc('hour', make_timestamp(2023, 10, 29, h, 30, 0, 0))"].iter().enumerate() {
                    let (line, query) = (format!("ts={}\n", stamp), format!("SELECT {} AS v FROM t", expr));
                    g.case(&format!("time-zone-{}-t{}-e{}", zi, ti, ei), move || {
                        // (a zone that cannot be put into effect - no tzdata for it - is not exercised: that is missing coverage, not a violation)
                        if !in_effect { return Ok(()); }
                        match run_opts(tdef, &query, &[b(&line)], json_opts()) { Outcome::Panic(p) => Err(format!("TZ={}: {} on the timestamp {} panicked: {}", zone, query, stamp, p)), _ => Ok(()) }
                    });
                }
            }
        }
        match saved { Some(v) => std::env::set_var("TZ", v), None => std::env::remove_var("TZ") }
        std::thread::sleep(std::time::Duration::from_millis(1100));
    }
    // bytes that are not text
    for (i, bytes) in vec![vec![0xffu8, 0xfe, b'\n', b'a', b'=', b'1'], vec![0u8; 10], (0u8..=255).collect::<Vec<u8>>()].into_iter().enumerate() {
        g.case(&format!("bytes-{}", i), move || match run_opts(DEF, "SELECT a, input FROM t", &[bytes], json_opts()) { Outcome::Panic(p) => Err(format!("arbitrary bytes: panic {}", p)), _ => Ok(()) });
    }
    g.done();
}
