// Bounded stand-in for C05 (JOIN pairs exactly the rows with equal join keys).
#![allow(dead_code, unused_imports)]
// Oracle (from the statement, a nested loop over the rows written into the two files): INNER JOIN = the pairs (r, s) with
// equal non-NULL keys ordered by r's position, then s's position; OUTER JOIN (non-aggregate) additionally one row with NULL
// joined columns for every r without partner; `*` = the queried table's columns, then the joined table's (a clashing name
// qualified); a missing join column or joined file is an error.
// Grid: a rotating seventeenth of (every sequence of up to 3 left rows over a 6-row pool x every sequence of up to 3 right rows over a 6-row pool)
// (keys duplicated on either side, absent on one side, NULL, integers next to 2^53), join on a TEXT key and on an INT key, ON written either way
// round, 10 statement shapes (columns, *, WHERE on either side, DISTINCT, GROUP BY, OUTER JOIN with anti-join / WHERE / DISTINCT).
// Also: two tables of the same shape and a literal self-join (plain name = queried row, qualified name = partner).
include!("verif_grid_common.rs");
include!("verif_grid_qcommon.rs");

// left rows: (user, host TEXT or NULL, code INT or NULL); right rows: (name TEXT, site TEXT, code INT or NULL)
const DEF: &str = "CREATE TABLE t(line = '^u=(\\\\w+) h=(\\\\w*) c=([0-9]*)$', line[1] => user TEXT, line[2] => host TEXT, line[3] => code INT); \
                   CREATE TABLE hosts(line = '^h=(\\\\w+) site=(\\\\w+) c=([0-9]*)$', line[1] => name TEXT, line[2] => site TEXT, line[3] => code INT);";
type L = (&'static str, Option<&'static str>, Option<i64>);
type R = (&'static str, &'static str, Option<i64>);
const LEFT: [(&str, L); 6] = [
    ("u=fay h=zeta c=9007199254740993", ("fay", Some("zeta"), Some(9007199254740993))),
    ("u=ann h=alpha c=1", ("ann", Some("alpha"), Some(1))), ("u=bob h=beta c=2", ("bob", Some("beta"), Some(2))),
    ("u=cy h=gamma c=", ("cy", Some("gamma"), None)), ("u=dee h= c=1", ("dee", Some(""), Some(1))), ("u=eve h=alpha c=3", ("eve", Some("alpha"), Some(3))),
];
const RIGHT: [(&str, R); 6] = [
    ("h=omega site=oc c=9007199254740992", ("omega", "oc", Some(9007199254740992))),
    ("h=alpha site=eu c=1", ("alpha", "eu", Some(1))), ("h=alpha site=ap c=2", ("alpha", "ap", Some(2))),
    ("h=beta site=us c=1", ("beta", "us", Some(1))), ("h=delta site=sa c=", ("delta", "sa", None)), ("h=beta site=af c=3", ("beta", "af", Some(3))),
];

fn js(v: Option<&str>) -> String { match v { Some(s) => format!("\"{}\"", s), None => "null".to_owned() } }
fn ji(v: Option<i64>) -> String { match v { Some(i) => i.to_string(), None => "null".to_owned() } }

#[derive(Clone, Copy, PartialEq)]
enum Key { Text, Int }

/// the pairs, by the statement of C05 (NULL keys never match)
fn pairs(left: &[L], right: &[R], key: Key, outer: bool) -> Vec<(L, Option<R>)> {
    let mut out = Vec::new();
    for l in left {
        let mut any = false;
        for r in right {
            let eq = match key { Key::Text => l.1 == Some(r.0), Key::Int => l.2.is_some() && l.2 == r.2 };
            if eq { out.push((*l, Some(*r))); any = true; }
        }
        if !any && outer { out.push((*l, None)); }
    }
    out
}

fn on(key: Key, flipped: bool) -> &'static str {
    match (key, flipped) { (Key::Text, false) => "t.host = hosts.name", (Key::Text, true) => "hosts.name = t.host", (Key::Int, false) => "t.code = hosts.code", (Key::Int, true) => "hosts.code = t.code" }
}

fn check(left: &[(&'static str, L)], right: &[(&'static str, R)], key: Key, flipped: bool, shape: usize) -> Result<(), String> {
    let lrows: Vec<L> = left.iter().map(|x| x.1).collect();
    let rrows: Vec<R> = right.iter().map(|x| x.1).collect();
    let file = write_temp("joined", &join_lines(&right.iter().map(|x| x.0).collect::<Vec<_>>()));
    let llines: Vec<&str> = left.iter().map(|x| x.0).collect();
    let j = |kind: &str| format!("{} JOIN hosts::'{}' ON {}", kind, file.display(), on(key, flipped));
    let (query, expected): (String, Vec<String>) = match shape {
        0 => (format!("SELECT user, hosts.site FROM t {}", j("INNER")),
              pairs(&lrows, &rrows, key, false).iter().map(|(l, r)| format!("{{\"user\":\"{}\",\"hosts.site\":{}}}", l.0, js(r.map(|r| r.1)))).collect()),
        1 => (format!("SELECT user, hosts.site FROM t {}", j("OUTER")),
              pairs(&lrows, &rrows, key, true).iter().map(|(l, r)| format!("{{\"user\":\"{}\",\"hosts.site\":{}}}", l.0, js(r.map(|r| r.1)))).collect()),
        2 => (format!("SELECT * FROM t {}", j("INNER")),
              pairs(&lrows, &rrows, key, false).iter().map(|(l, r)| { let r = r.unwrap(); format!("{{\"user\":\"{}\",\"host\":{},\"code\":{},\"name\":\"{}\",\"site\":\"{}\",\"hosts.code\":{}}}", l.0, js(l.1), ji(l.2), r.0, r.1, ji(r.2)) }).collect()),
        3 => (format!("SELECT user, hosts.site FROM t {} WHERE hosts.site != 'eu' AND user != 'eve'", j("INNER")),
              pairs(&lrows, &rrows, key, false).iter().filter(|(l, r)| r.unwrap().1 != "eu" && l.0 != "eve").map(|(l, r)| format!("{{\"user\":\"{}\",\"hosts.site\":\"{}\"}}", l.0, r.unwrap().1)).collect()),
        4 => (format!("SELECT DISTINCT hosts.site FROM t {}", j("INNER")), {
              let mut seen: Vec<&str> = Vec::new();
              for (_, r) in pairs(&lrows, &rrows, key, false) { let s = r.unwrap().1; if !seen.contains(&s) { seen.push(s); } }
              seen.iter().map(|s| format!("{{\"hosts.site\":\"{}\"}}", s)).collect() }),
        6 => (format!("SELECT user FROM t {} WHERE hosts.site IS NULL", j("OUTER")),
              pairs(&lrows, &rrows, key, true).iter().filter(|(_, r)| r.is_none()).map(|(l, _)| format!("{{\"user\":\"{}\"}}", l.0)).collect()),
        7 => (format!("SELECT user, hosts.site FROM t {} WHERE hosts.site != 'eu'", j("OUTER")),
              pairs(&lrows, &rrows, key, true).iter().filter(|(_, r)| r.is_some() && r.unwrap().1 != "eu").map(|(l, r)| format!("{{\"user\":\"{}\",\"hosts.site\":\"{}\"}}", l.0, r.unwrap().1)).collect()),
        8 => (format!("SELECT DISTINCT hosts.site FROM t {}", j("OUTER")), {
              let mut seen: Vec<Option<&str>> = Vec::new();
              for (_, r) in pairs(&lrows, &rrows, key, true) { let s = r.map(|r| r.1); if !seen.contains(&s) { seen.push(s); } }
              seen.iter().map(|s| format!("{{\"hosts.site\":{}}}", js(*s))).collect() }),
        _ => (format!("SELECT hosts.site, COUNT(*) AS n FROM t {} GROUP BY hosts.site", j("INNER")), {
              let mut groups: std::collections::BTreeMap<&str, usize> = std::collections::BTreeMap::new();
              for (_, r) in pairs(&lrows, &rrows, key, false) { *groups.entry(r.unwrap().1).or_insert(0) += 1; }
              groups.iter().map(|(s, n)| format!("{{\"hosts.site\":\"{}\",\"n\":{}}}", s, n)).collect() }),
    };
    let got = q(DEF, &query, &llines);
    let _ = std::fs::remove_file(&file);
    match got {
        Outcome::Lines(lines, _) => if lines == expected { Ok(()) } else { Err(format!("{} over {:?} with the joined file holding {:?} printed {:?}; the pairs with equal non-NULL keys give {:?}", query, llines, right.iter().map(|x| x.0).collect::<Vec<_>>(), lines, expected)) },
        other => Err(format!("{} over {:?}: {:?}", query, llines, other)),
    }
}

#[test]
fn verif_grid() {
    let mut g = Grid::new("c05");
    let lseqs = sequences(&["0", "1", "2", "3", "4", "5"], 3);
    let rseqs = sequences(&["0", "1", "2", "3", "4", "5"], 3);
    let mut n = 0usize;
    for (li, ls) in lseqs.iter().enumerate() { for (ri, rs) in rseqs.iter().enumerate() {
        // the full product is 259 x 259; every left sequence meets a rotating seventeenth of the right sequences
        if left_out(li + ri, 17) { continue; }
        n += 1;
        let left: Vec<(&'static str, L)> = ls.iter().map(|i| LEFT[i.parse::<usize>().unwrap()]).collect();
        let right: Vec<(&'static str, R)> = rs.iter().map(|i| RIGHT[i.parse::<usize>().unwrap()]).collect();
        let key = if n % 2 == 0 { Key::Text } else { Key::Int };
        let flipped = n % 4 >= 2;
        let shape = n % 10;
        g.case(&format!("l{}-r{}-{}-{}-s{}", li, ri, if key == Key::Text { "text" } else { "int" }, if flipped { "flipped" } else { "straight" }, shape),
               move || check(&left, &right, key, flipped, shape));
    } }
    // a table joined with a file of its own kind: t.column is the queried row, the joined side is addressed by the table name too,
    // so the statement gives the join an own definition `peer` with the same columns (a self-join in all but name) and a
    // literal self-join where only qualified names of the ONE table exist
    for (i, outer) in [false, true].iter().enumerate() {
        g.case(&format!("same-shape-tables-{}", i), move || {
            let def = "CREATE TABLE emp(line = '^e=(\\\\w+) boss=(\\\\w*)$', line[1] => name TEXT, line[2] => boss TEXT); \
                       CREATE TABLE peer(line = '^e=(\\\\w+) boss=(\\\\w*)$', line[1] => name TEXT, line[2] => boss TEXT);";
            let lines = ["e=ann boss=", "e=bob boss=ann", "e=cy boss=ann", "e=dee boss=zed"];
            let file = write_temp("joined", &join_lines(&lines));
            let query = format!("SELECT emp.name, peer.name, peer.boss FROM emp {} JOIN peer::'{}' ON emp.boss = peer.name", if *outer { "OUTER" } else { "INNER" }, file.display());
            let r = q(def, &query, &lines);
            let _ = std::fs::remove_file(&file);
            let mut want = vec![];
            if *outer { want.push(r#"{"emp.name":"ann","peer.name":null,"peer.boss":null}"#.to_owned()); }
            want.push(r#"{"emp.name":"bob","peer.name":"ann","peer.boss":""}"#.to_owned());
            want.push(r#"{"emp.name":"cy","peer.name":"ann","peer.boss":""}"#.to_owned());
            if *outer { want.push(r#"{"emp.name":"dee","peer.name":null,"peer.boss":null}"#.to_owned()); }
            match r { Outcome::Lines(l, _) => if l == want { Ok(()) } else { Err(format!("{} over {:?} joined with the same lines printed {:?}, expected {:?}", query, lines, l, want)) }, other => Err(format!("{}: {:?}", query, other)) }
        });
        g.case(&format!("self-join-{}", i), move || {
            let def = "CREATE TABLE emp(line = '^e=(\\\\w+) boss=(\\\\w*)$', line[1] => name TEXT, line[2] => boss TEXT);";
            let lines = ["e=ann boss=", "e=bob boss=ann", "e=cy boss=ann", "e=dee boss=zed"];
            let file = write_temp("joined", &join_lines(&lines));
            // every row that has a boss in the file: an INNER self-join keeps bob and cy, an OUTER one pads ann and dee
            let query = format!("SELECT COUNT(*) AS n FROM emp INNER JOIN emp::'{}' ON emp.boss = emp.name", file.display());
            let query2 = format!("SELECT name FROM emp {} JOIN emp::'{}' ON emp.boss = emp.name", if *outer { "OUTER" } else { "INNER" }, file.display());
            // the joined side of a self-join is addressable by the qualified name only (every plain name clashes)
            let query3 = format!("SELECT name, emp.name, emp.boss FROM emp INNER JOIN emp::'{}' ON emp.boss = emp.name", file.display());
            let (r, r2, r3) = (q(def, &query, &lines), q(def, &query2, &lines), q(def, &query3, &lines));
            let _ = std::fs::remove_file(&file);
            if let Outcome::Lines(l3, _) = &r3 {
                let want3 = vec![r#"{"name":"bob","emp.name":"ann","emp.boss":""}"#.to_owned(), r#"{"name":"cy","emp.name":"ann","emp.boss":""}"#.to_owned()];
                if *l3 != want3 { return Err(format!("{} over {:?} printed {:?}; the plain name is the queried row, the qualified name the partner: {:?}", query3, lines, l3, want3)); }
            }
            match (r, r2) {
                (Outcome::Error(_), _) | (_, Outcome::Error(_)) => Ok(()),   // a self-join may be refused; it must not give a wrong table
                (Outcome::Lines(l, _), Outcome::Lines(l2, _)) => { let rows = if *outer { 4 } else { 2 };
                    if l == vec![r#"{"n":2}"#.to_owned()] && l2.len() == rows { Ok(()) } else { Err(format!("self-join of emp on boss = name over {:?}: COUNT(*) printed {:?} (2 pairs exist), {} printed {} rows (expected {})", lines, l, query2, l2.len(), rows)) } }
                other => Err(format!("{:?}", other)),
            }
        });
    }
    // other key types: REAL keys pair by numeric value (0.0 with -0.0, 1 with 1.0), TIMESTAMP keys by instant
    g.case("real-keys", || {
        let def = "CREATE TABLE t(line = '^x=(\\\\S+)$', line[1] => x REAL); CREATE TABLE u(line = '^y=(\\\\S+) n=(\\\\w+)$', line[1] => y REAL, line[2] => name TEXT);";
        let file = write_temp("joined", &join_lines(&["y=0.0 n=zero", "y=1.0 n=one", "y=1.5 n=half", "y=x n=bad", "y=1e0 n=uno"]));
        let r = q(def, &format!("SELECT x, u.name FROM t INNER JOIN u::'{}' ON t.x = u.y", file.display()), &["x=-0.0", "x=1", "x=1.5000000000000002", "x=2"]);
        let _ = std::fs::remove_file(&file);
        let want = vec![r#"{"x":-0.0,"u.name":"zero"}"#, r#"{"x":1.0,"u.name":"one"}"#, r#"{"x":1.0,"u.name":"uno"}"#];
        match r { Outcome::Lines(l, _) => if l.iter().map(|s| s.as_str()).collect::<Vec<_>>() == want { Ok(()) } else { Err(format!("join on REAL keys printed {:?}, expected {:?}", l, want)) }, other => Err(format!("{:?}", other)) }
    });
    // the joined file is read like any input: a line with a single field is a row of a split table, and CRLF line ends are line ends
    g.case("joined-split-table-single-field-and-crlf", || {
        let def = "CREATE TABLE t(line = '^u=(\\\\w+) h=(\\\\w*)$', line[1] => user TEXT, line[2] => host TEXT); CREATE TABLE hosts(f = split ',', f[1] => name TEXT, f[2] => site TEXT);";
        let lines = ["u=ann h=alpha", "u=bob h=beta", "u=cy h=gamma"];
        let want = vec![r#"{"user":"ann","hosts.site":"eu"}"#.to_owned(), r#"{"user":"bob","hosts.site":null}"#.to_owned(), r#"{"user":"cy","hosts.site":"ap"}"#.to_owned()];
        for (what, content) in [("LF", "alpha,eu\nbeta\ngamma,ap\n"), ("CRLF", "alpha,eu\r\nbeta\r\ngamma,ap\r\n"), ("CRLF, key last on the line", "eu,alpha\r\n,beta\r\nap,gamma\r\n")] {
            let file = write_temp("joined", content.as_bytes());
            let on = if what.ends_with("line") { "CREATE" } else { "" };
            let (def2, query) = if on.is_empty() { (def.to_owned(), format!("SELECT user, hosts.site FROM t INNER JOIN hosts::'{}' ON t.host = hosts.name", file.display())) }
                else { (def.replace("f[1] => name TEXT, f[2] => site TEXT", "f[2] => name TEXT, f[1] => site TEXT"), format!("SELECT user, hosts.site FROM t INNER JOIN hosts::'{}' ON t.host = hosts.name", file.display())) };
            let r = q(&def2, &query, &lines);
            let _ = std::fs::remove_file(&file);
            let want2: Vec<String> = if on.is_empty() { want.clone() } else { vec![want[0].clone(), r#"{"user":"bob","hosts.site":""}"#.to_owned(), want[2].clone()] };
            match r { Outcome::Lines(l, _) => if l != want2 { return Err(format!("joined file ({}) {:?}: printed {:?}, the pairs with equal keys are {:?}", what, content, l, want2)); }, other => return Err(format!("joined file ({}): {:?}", what, other)) }
        }
        Ok(())
    });
    g.case("timestamp-keys", || {
        let def = "CREATE TABLE t(line = '^at=(.+)$', line[1] => at TIMESTAMP); CREATE TABLE u(line = '^when=(.+) what=(\\\\w+)$', line[1] => at2 TIMESTAMP, line[2] => what TEXT);";
        let file = write_temp("joined", &join_lines(&["when=2020-01-01 00:00:00 what=newyear", "when=2020-06-15 12:30:00 what=noonish", "when=never what=bad"]));
        let r = q(def, &format!("SELECT u.what FROM t INNER JOIN u::'{}' ON t.at = u.at2", file.display()), &["at=2020-06-15 12:30:00", "at=2020-06-15 12:30:01", "at=2020-01-01 00:00:00", "at=junk"]);
        let _ = std::fs::remove_file(&file);
        let want = vec![r#"{"u.what":"noonish"}"#, r#"{"u.what":"newyear"}"#];
        match r { Outcome::Lines(l, _) => if l.iter().map(|s| s.as_str()).collect::<Vec<_>>() == want { Ok(()) } else { Err(format!("join on TIMESTAMP keys printed {:?}, expected {:?}", l, want)) }, other => Err(format!("{:?}", other)) }
    });
    // a joined file that cannot be read to its end is an error too - or the rows after the unreadable line still join
    g.case("joined-file-unreadable-line", || {
        let mut content = b("h=alpha site=eu c=1\n");
        content.extend_from_slice(&[0xff, 0xfe, b'\n']);
        content.extend_from_slice(b"h=beta site=us c=2\n");
        let file = write_temp("joined", &content);
        let r = q(DEF, &format!("SELECT user, hosts.site FROM t INNER JOIN hosts::'{}' ON t.host = hosts.name", file.display()), &["u=ann h=alpha c=1", "u=bob h=beta c=2"]);
        let _ = std::fs::remove_file(&file);
        match r { Outcome::Error(_) => Ok(()), Outcome::Lines(l, _) => if l.len() == 2 { Ok(()) } else { Err(format!("the joined file has a line that is not valid UTF-8 before the row of beta: no error, and the join printed {:?}", l)) }, other => Err(format!("{:?}", other)) }
    });
    // a missing join column or joined file is an error, never an empty result
    g.case("missing-file", || match q(DEF, "SELECT user FROM t INNER JOIN hosts::'/nonexistent/verif_grid_no_such_file' ON t.host = hosts.name", &["u=ann h=alpha c=1"]) {
        Outcome::Error(_) => Ok(()), other => Err(format!("a missing joined file gives {:?}", other)) });
    // column names are case sensitive: `Host` and `host` are two columns, and `HOST` is none
    g.case("columns-that-differ-in-case", || {
        let def = "CREATE TABLE hits(line = '^H=(\\\\w+) h=(\\\\w+) p=(\\\\w+)$', line[1] => Host TEXT, line[2] => host TEXT, line[3] => path TEXT); \
                   CREATE TABLE machines(line = '^R=(\\\\w+) r=(\\\\w+) room=(\\\\w+)$', line[1] => Host TEXT, line[2] => host TEXT, line[3] => room TEXT);";
        let file = write_temp("joined", &join_lines(&["R=a r=b room=one", "R=b r=a room=two", "R=c r=c room=three"]));
        let lines = ["H=a h=b p=x", "H=c h=a p=y", "H=z h=c p=w"];
        let mut result = Ok(());
        for (on, want) in [("hits.host = machines.host", vec![("x", "one"), ("y", "two"), ("w", "three")]), ("hits.Host = machines.Host", vec![("x", "one"), ("y", "three")]),
                           ("hits.Host = machines.host", vec![("x", "two"), ("y", "three")]), ("machines.Host = hits.host", vec![("x", "two"), ("y", "one"), ("w", "three")])] {
            let query = format!("SELECT path, machines.room FROM hits INNER JOIN machines::'{}' ON {}", file.display(), on);
            let expected: Vec<String> = want.iter().map(|(p, r)| format!("{{\"path\":\"{}\",\"machines.room\":\"{}\"}}", p, r)).collect();
            match q(def, &query, &lines) { Outcome::Lines(l, _) => if l != expected { result = Err(format!("ON {} over {:?} and the joined rows R=a r=b / R=b r=a / R=c r=c printed {:?}; the pairs with equal keys are {:?}", on, lines, l, expected)); break; }, other => { result = Err(format!("ON {}: {:?}", on, other)); break; } }
        }
        if result.is_ok() {
            for on in ["hits.HOST = machines.host", "hits.host = machines.HOST"] {
                match q(def, &format!("SELECT path FROM hits INNER JOIN machines::'{}' ON {}", file.display(), on), &lines) { Outcome::Error(_) => {}, other => { result = Err(format!("ON {} (no column of that spelling) gives {:?}", on, other)); break; } }
            }
        }
        let _ = std::fs::remove_file(&file);
        result
    });
    for (i, cond) in ["t.nohost = hosts.name", "t.host = hosts.noname"].iter().enumerate() {
        g.case(&format!("missing-column-{}", i), move || {
            let file = write_temp("joined", &join_lines(&["h=alpha site=eu c=1"]));
            let r = q(DEF, &format!("SELECT user FROM t INNER JOIN hosts::'{}' ON {}", file.display(), cond), &["u=ann h=alpha c=1"]);
            let _ = std::fs::remove_file(&file);
            match r { Outcome::Error(_) => Ok(()), other => Err(format!("ON {} (a column that does not exist) gives {:?}", cond, other)) }
        });
    }
    // ... also when the joined file yields no row at all
    for (i, kind) in ["INNER", "OUTER"].iter().enumerate() {
        g.case(&format!("missing-column-empty-joined-file-{}", i), move || {
            let file = write_temp("joined", b"");
            let r = q(DEF, &format!("SELECT user FROM t {} JOIN hosts::'{}' ON t.nohost = hosts.name", kind, file.display()), &["u=ann h=alpha c=1"]);
            let _ = std::fs::remove_file(&file);
            match r { Outcome::Error(_) => Ok(()), other => Err(format!("{} JOIN ON t.nohost (a column that does not exist) with an empty joined file gives {:?}", kind, other)) }
        });
    }
    g.done();
}
