// Bounded stand-in for C16 (value equality, ordering and hashing agree and form a total order).
#![allow(dead_code, unused_imports)]
// Oracle (from the statement, observed through SQL): for two non-NULL values of one type exactly one of a < b, a = b, a > b
// holds (and <=, >=, != follow); the order is transitive; and every consumer agrees with `=`: two rows fall into one GROUP BY
// group, are deduplicated by DISTINCT and are paired by a JOIN exactly when WHERE calls them equal.  Numbers compare by
// numeric value.  Grid: every ordered pair and every triple over 12 REAL values (signed zeros, adjacent doubles, 0.1+0.2,
// infinities as far as the REAL parser yields them, NaN), 9 INT values (64-bit ends, neighbours of 2^53), 13 TEXT values
// (empty, prefixes, case, non-ASCII, texts that look like numbers: 7, 007, +7, 10, 1x, 2) and 4 TIMESTAMP values.
// Also: a text literal on either side of every TIMESTAMP comparison, also for timestamps with a fraction of a second (5 instants within two seconds x 3 literals,
// GROUP BY / DISTINCT / WHERE over them); PERCENTILE / MIN / MAX shown by one engine on every
// refresh against the batch value, over sequences of 3..4 lines of a 6-line pool.
include!("verif_grid_common.rs");
include!("verif_grid_qcommon.rs");
use serde_json::Value as J;

struct Kind { name: &'static str, ty: &'static str, pattern: &'static str, values: Vec<&'static str> }

fn flags(kind: &Kind, a: &str, b: &str) -> Result<Option<[bool; 6]>, String> {
    let def = format!("CREATE TABLE t(line = '^x=({p})\\\\|y=({p})$', line[1] => x {t}, line[2] => y {t});", p = kind.pattern, t = kind.ty);
    let line = format!("x={}|y={}", a, b);
    match q(&def, "SELECT x < y AS lt, x <= y AS le, x = y AS eq, x != y AS ne, x >= y AS ge, x > y AS gt, x IS NULL AS xn, y IS NULL AS yn FROM t", &[&line]) {
        Outcome::Lines(l, _) => {
            if l.len() != 1 { return Err(format!("{:?} gave {:?}", line, l)); }
            let v: J = serde_json::from_str(&l[0]).unwrap();
            if v["xn"] == J::Bool(true) || v["yn"] == J::Bool(true) { return Ok(None); }   // not a literal of the type: NULL, outside this law
            let f = |k: &str| v[k] == J::Bool(true);
            Ok(Some([f("lt"), f("le"), f("eq"), f("ne"), f("ge"), f("gt")]))
        }
        other => Err(format!("{:?}: {:?}", line, other)),
    }
}

#[test]
fn verif_grid() {
    let mut g = Grid::new("c16");
    let kinds = vec![
        Kind { name: "real", ty: "REAL", pattern: "[^|]*", values: vec!["0.0", "-0.0", "1.0", "1.0000000000000002", "0.9999999999999999", "-1.5", "1e308", "-1e308", "5e-324", "0.30000000000000004", "0.3", "NaN"] },
        Kind { name: "int", ty: "INT", pattern: "[^|]*", values: vec!["0", "-1", "1", "9223372036854775807", "9223372036854775806", "-9223372036854775808", "9007199254740992", "9007199254740993", "-9007199254740993"] },
        Kind { name: "text", ty: "TEXT", pattern: "[^|]*", values: vec!["", "a", "ab", "B", "b", "é", "日本", "7", "007", "+7", "10", "1x", "2"] },
        Kind { name: "timestamp", ty: "TIMESTAMP", pattern: "[^|]*", values: vec!["2020-01-01 00:00:00", "2020-01-01 00:00:01", "1999-12-31 23:59:59", "2038-01-19 03:14:08"] },
    ];
    for kind in &kinds {
        let n = kind.values.len();
        // comparison flags of every ordered pair
        let mut table: Vec<Vec<Option<[bool; 6]>>> = vec![vec![None; n]; n];
        let mut broken = None;
        for i in 0..n { for j in 0..n { match flags(kind, kind.values[i], kind.values[j]) { Ok(f) => table[i][j] = f, Err(e) => broken = Some(e) } } }
        if let Some(e) = broken { let name = kind.name; g.case(&format!("{}-flags", name), move || Err(format!("comparison flags could not be read: {}", e))); continue; }
        for i in 0..n { for j in 0..n {
            let (a, b, f, name) = (kind.values[i], kind.values[j], table[i][j], kind.name);
            let fr = table[j][i];
            g.case(&format!("{}-trichotomy-{}-{}", name, i, j), move || {
                let f = match f { Some(f) => f, None => return Ok(()) };
                let [lt, le, eq, ne, ge, gt] = f;
                if [lt, eq, gt].iter().filter(|x| **x).count() != 1 { return Err(format!("{} values {:?} and {:?}: a < b is {}, a = b is {}, a > b is {} - exactly one must hold", name, a, b, lt, eq, gt)); }
                if le != (lt || eq) || ge != (gt || eq) || ne == eq { return Err(format!("{} values {:?} and {:?}: <= {}, >= {}, != {} do not follow from < {}, = {}, > {}", name, a, b, le, ge, ne, lt, eq, gt)); }
                if i == j && !eq { return Err(format!("{} value {:?} is not equal to itself", name, a)); }
                if let Some(r) = fr { if r[0] != gt || r[2] != eq || r[5] != lt { return Err(format!("{} values {:?} and {:?}: the comparison is not antisymmetric ({:?} one way, {:?} the other)", name, a, b, f, r)); } }
                Ok(())
            });
        } }
        for i in 0..n { for j in 0..n { for k in 0..n {
            if let (Some(x), Some(y), Some(z)) = (table[i][j], table[j][k], table[i][k]) {
                let (a, b, c, name) = (kind.values[i], kind.values[j], kind.values[k], kind.name);
                g.case(&format!("{}-transitive-{}-{}-{}", name, i, j, k), move || {
                    if (x[0] || x[2]) && (y[0] || y[2]) && !(z[0] || z[2]) { return Err(format!("{}: {:?} <= {:?} and {:?} <= {:?} but not {:?} <= {:?}", name, a, b, b, c, a, c)); }
                    if x[2] && y[2] && !z[2] { return Err(format!("{}: {:?} = {:?} and {:?} = {:?} but not {:?} = {:?}", name, a, b, b, c, a, c)); }
                    Ok(())
                });
            }
        } } }
        // every consumer agrees with `=`
        for i in 0..n { for j in 0..n {
            let eq = match (table[i][j], table[i][i], table[j][j]) { (Some(f), Some(_), Some(_)) => f[2], _ => continue };
            let (a, b, name, ty, pattern) = (kind.values[i], kind.values[j], kind.name, kind.ty, kind.pattern);
            g.case(&format!("{}-consumers-{}-{}", name, i, j), move || {
                let def = format!("CREATE TABLE t(line = '^x=({p})$', line[1] => x {t}); CREATE TABLE u(line = '^x=({p})$', line[1] => x {t});", p = pattern, t = ty);
                let lines = [format!("x={}", a), format!("x={}", b)];
                let l: Vec<&str> = lines.iter().map(|s| s.as_str()).collect();
                let count = |query: &str| -> Result<usize, String> { match q(&def, query, &l) { Outcome::Lines(rows, _) => Ok(rows.len()), other => Err(format!("{}: {:?}", query, other)) } };
                let groups = count("SELECT x, COUNT(*) AS n FROM t GROUP BY x")?;
                let distinct = count("SELECT DISTINCT x FROM t")?;
                let file = write_temp("joined", &join_lines(&l));
                let pairs = count(&format!("SELECT t.x FROM t INNER JOIN u::'{}' ON t.x = u.x", file.display()));
                let _ = std::fs::remove_file(&file);
                let pairs = pairs?;
                let want = if eq { (1, 1, 4) } else { (2, 2, 2) };
                if (groups, distinct, pairs) == want { Ok(()) }
                else { Err(format!("{} values {:?} and {:?}: WHERE calls them {}, but GROUP BY makes {} group(s), DISTINCT keeps {} row(s) and a self-join pairs {} of 4 combinations (expected {:?})", name, a, b, if eq { "equal" } else { "different" }, groups, distinct, pairs, want)) }
            });
        } }
    }
    // a text literal on either side of a TIMESTAMP comparison is read as a timestamp: the two ways of writing a comparison agree
    {
        let def = "CREATE TABLE t(line = '^ts=(.+)$', line[1] => ts TIMESTAMP);";
        let stamps = ["2020-01-01 00:00:00", "2020-06-15 12:30:00", "2021-01-01 00:00:00"];
        for (i, lit) in stamps.iter().enumerate() { for (j, row) in stamps.iter().enumerate() {
            g.case(&format!("timestamp-text-sides-{}-{}", i, j), move || {
                let line = format!("ts={}", row);
                let query = format!("SELECT ts < '{l}' AS a, '{l}' > ts AS b, ts > '{l}' AS c, '{l}' < ts AS d, ts = '{l}' AS e, '{l}' = ts AS f, ts <= '{l}' AS g, '{l}' >= ts AS h FROM t", l = lit);
                match q(def, &query, &[&line]) {
                    Outcome::Lines(l, _) => { let v: J = serde_json::from_str(&l[0]).unwrap();
                        let want = (row < lit, row > lit, row == lit, row <= lit);
                        if v["a"] == v["b"] && v["c"] == v["d"] && v["e"] == v["f"] && v["g"] == v["h"] && v["a"] == J::Bool(want.0) && v["c"] == J::Bool(want.1) && v["e"] == J::Bool(want.2) && v["g"] == J::Bool(want.3) { Ok(()) }
                        else { Err(format!("row {} against the literal '{}': {} printed {}", row, lit, query, l[0])) } }
                    other => Err(format!("{:?}", other)),
                }
            });
        } }
    }
    // ... also for timestamps with a fraction of a second (a seven-part TIMESTAMP column): they compare by instant, not by their whole second
    {
        let def = "CREATE TABLE t(line = '^ts=(\\\\d+)-(\\\\d+)-(\\\\d+) (\\\\d+):(\\\\d+):(\\\\d+)\\\\.(\\\\d+)$', line[1], line[2], line[3], line[4], line[5], line[6], line[7] => ts TIMESTAMP);";
        let rows: [(&str, i64); 5] = [("2020-01-01 00:00:00.000", 0), ("2020-01-01 00:00:00.001", 1), ("2020-01-01 00:00:00.500", 500), ("2020-01-01 00:00:00.999", 999), ("2020-01-01 00:00:01.000", 1000)];
        let literals: [(&str, i64); 3] = [("2020-01-01 00:00:00", 0), ("2020-01-01 00:00:01", 1000), ("2019-12-31 23:59:59", -1000)];
        for (i, (lit, lit_ms)) in literals.iter().enumerate() { for (j, (row, row_ms)) in rows.iter().enumerate() {
            g.case(&format!("timestamp-fraction-text-sides-{}-{}", i, j), move || {
                let line = format!("ts={}", row);
                let query = format!("SELECT ts < '{l}' AS a, '{l}' > ts AS b, ts > '{l}' AS c, '{l}' < ts AS d, ts = '{l}' AS e, '{l}' = ts AS f, ts <= '{l}' AS g, '{l}' >= ts AS h, ts != '{l}' AS n FROM t", l = lit);
                match q(def, &query, &[&line]) {
                    Outcome::Lines(l, _) => { if l.len() != 1 { return Err(format!("{:?}", l)); } let v: J = serde_json::from_str(&l[0]).unwrap();
                        let want = (row_ms < lit_ms, row_ms > lit_ms, row_ms == lit_ms, row_ms <= lit_ms);
                        if v["a"] == v["b"] && v["c"] == v["d"] && v["e"] == v["f"] && v["g"] == v["h"] && v["a"] == J::Bool(want.0) && v["c"] == J::Bool(want.1) && v["e"] == J::Bool(want.2) && v["g"] == J::Bool(want.3) && v["n"] == J::Bool(!want.2) { Ok(()) }
                        else { Err(format!("the timestamp {} against the literal '{}': {} printed {}", row, lit, query, l[0])) } }
                    other => Err(format!("{:?}", other)),
                }
            });
        } }
        // and the consumers agree: two timestamps of one second are two groups, two DISTINCT rows, and a literal selects at most one of them
        g.case("timestamp-fraction-consumers", move || {
            let lines: Vec<String> = rows.iter().map(|(r, _)| format!("ts={}", r)).collect();
            let refs: Vec<&str> = lines.iter().map(|s| s.as_str()).collect();
            for (query, want) in [("SELECT ts, COUNT(*) AS n FROM t GROUP BY ts", 5usize), ("SELECT DISTINCT ts FROM t", 5), ("SELECT ts FROM t WHERE ts = '2020-01-01 00:00:00'", 1), ("SELECT ts FROM t WHERE ts >= '2020-01-01 00:00:00' AND ts < '2020-01-01 00:00:01'", 4),
                                  ("SELECT COUNT(DISTINCT ts) AS d FROM t HAVING COUNT(DISTINCT ts) = 5", 1)] {
                match q(def, query, &refs) { Outcome::Lines(l, _) => if l.len() != want { return Err(format!("{} over five timestamps within one second (.000 .001 .500 .999 and the next second) printed {} rows: {:?}; {} expected", query, l.len(), l, want)); }, other => return Err(format!("{}: {:?}", query, other)) }
            }
            Ok(())
        });
    }
    // PERCENTILE ranks by the same order on every refresh: one engine fed line by line shows the batch value each time
    {
        let pool = ["k=a v=5", "k=a v=1", "k=a v=9", "k=a v=3", "k=b v=2", "k=a v=7"];
        for (bi, base) in sequences(&pool, 4).into_iter().enumerate() {
            if base.len() < 3 || (base.len() == 4 && left_out(bi, 3)) { continue; }
            let b1 = base.clone();
            g.case(&format!("percentile-refresh-b{}", bi), move || {
                let st = "SELECT k, PERCENTILE(v, 0.5) AS med, MIN(v) AS lo, MAX(v) AS hi FROM t GROUP BY k";
                let shown = incremental(T, st, &b1)?;
                for k in 1..=b1.len() { if let Some(table) = &shown[k - 1] { match q(T, st, &b1[..k]) {
                    Outcome::Lines(batch, _) => if *table != batch { return Err(format!("{} fed line by line over {:?}: after line {} it shows {:?}, a batch run over those lines prints {:?}", st, b1, k, table, batch)); },
                    other => return Err(format!("{:?}", other)) } } }
                Ok(())
            });
        }
    }
    // rows of several columns are equal only column by column
    g.case("distinct-rows-of-two-columns", || {
        let def = "CREATE TABLE t(line = '^a=(\\\\w+) b=(\\\\w+) m=([0-9]+) n=([0-9]+)$', line[1] => a TEXT, line[2] => b TEXT, line[3] => m INT, line[4] => n INT);";
        let lines = ["a=x b=y m=1 n=2", "a=y b=x m=2 n=1", "a=x b=x m=1 n=1", "a=y b=y m=2 n=2", "a=x b=y m=1 n=2"];
        for (query, want) in [("SELECT DISTINCT a, b FROM t", 4), ("SELECT DISTINCT m, n FROM t", 4), ("SELECT DISTINCT a, m FROM t", 2), ("SELECT a, b, COUNT(*) AS c FROM t GROUP BY a, b", 4), ("SELECT DISTINCT m + n AS s, m - n AS d FROM t", 4)] {
            match q(def, query, &lines) { Outcome::Lines(l, _) => if l.len() != want { return Err(format!("{} over {:?} printed {} rows ({:?}); {} different rows exist", query, lines, l.len(), l, want)); }, other => return Err(format!("{}: {:?}", query, other)) }
        }
        Ok(())
    });
    // numbers compare by numeric value
    for (i, (a, b, lt)) in [("2", "10", true), ("-2", "-10", false), ("9007199254740992", "9007199254740993", true)].iter().enumerate() {
        let kind = Kind { name: "int", ty: "INT", pattern: "[^|]*", values: vec![] };
        g.case(&format!("numeric-int-{}", i), move || match flags(&kind, a, b)? { Some(f) => if f[0] == *lt { Ok(()) } else { Err(format!("INT {} < {} is {}", a, b, f[0])) }, None => Err("NULL".to_owned()) });
    }
    for (i, (a, b, lt)) in [("2", "10", true), ("1e2", "99", false), ("-0.5", "-0.25", true), ("1e-5", "0.0001", true)].iter().enumerate() {
        let kind = Kind { name: "real", ty: "REAL", pattern: "[^|]*", values: vec![] };
        g.case(&format!("numeric-real-{}", i), move || match flags(&kind, a, b)? { Some(f) => if f[0] == *lt { Ok(()) } else { Err(format!("REAL {} < {} is {}", a, b, f[0])) }, None => Err("NULL".to_owned()) });
    }
    g.done();
}
