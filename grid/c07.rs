// Bounded stand-in for C07 (LIMIT n outputs exactly the first n rows of the unlimited result).
#![allow(dead_code, unused_imports)]
// Oracle (from the statement): rows(S LIMIT n) == the first n rows of rows(S) for every n in 0..rows+2; a non-aggregate
// query consumes no input beyond the line that produced its n-th row (none for n = 0); an aggregate query in batch mode
// reads everything.  Grid: every sequence of up to 3 admitted lines over a 4-line pool (also split into two files at every
// cut) x 8 plain / DISTINCT statements, 4 aggregate statements, 4 join statements (several rows per line, all-NULL rows, WHERE on the joined side); 3 inputs with lines the table does not admit x all 12 statements.
include!("verif_grid_common.rs");
include!("verif_grid_qcommon.rs");

fn rows(o: &Outcome) -> Option<(Vec<String>, u64)> { if let Outcome::Lines(l, n) = o { Some((l.clone(), *n)) } else { None } }

/// rows printed after each prefix of the input (index k = the first k lines); None when a prefix has no value
fn rows_after_prefixes(def: &str, st: &str, input: &[&str]) -> Option<Vec<usize>> {
    let mut out = vec![0usize];
    for k in 1..=input.len() {
        if let Outcome::Lines(l, _) = q(def, st, &input[..k]) { out.push(l.len()); } else { return None; }
    }
    Some(out)
}

fn check(def: &str, st: &str, files: &[Vec<&str>], aggregate: bool) -> Result<(), String> {
    let all: Vec<&str> = files.iter().flat_map(|f| f.iter().cloned()).collect();
    let full = q_files(def, st, files);
    let (full_rows, _) = match rows(&full) { Some(x) => x, None => return Err(format!("{} over {:?} has no value ({:?}): the grid is not exercising it", st, files, full)) };
    let prefixes = if aggregate { None } else { rows_after_prefixes(def, st, &all) };
    for n in 0..full_rows.len() + 2 {
        let limited = q_files(def, &format!("{} LIMIT {}", st, n), files);
        let (got, consumed) = match rows(&limited) { Some(x) => x, None => return Err(format!("{} LIMIT {} over {:?} gives {:?}, without LIMIT {:?}", st, n, files, limited, full_rows)) };
        let want = full_rows.iter().take(n).cloned().collect::<Vec<_>>();
        if got != want { return Err(format!("{} LIMIT {} over {:?} printed {:?}; the first {} rows of the unlimited result are {:?}", st, n, files, got, n, want)); }
        if !aggregate {
            if let Some(p) = &prefixes {
                // the line that produced row number n (all lines when there are fewer rows)
                let need = if n == 0 { 0 } else { p.iter().position(|r| *r >= n).unwrap_or(all.len()) as u64 };
                if consumed > need { return Err(format!("{} LIMIT {} over {:?} consumed {} lines; its row number {} is produced by line {}", st, n, files, consumed, n, need)); }
                // ... whether or not the rows are printed (DisplayOptions::print_result off: timing runs)
                let quiet = run_opts(def, &format!("{} LIMIT {}", st, n), &files.iter().map(|f| join_lines(f)).collect::<Vec<_>>(), DisplayOptions { output_format: OutputFormat::Json, single_result: true, print_result: false });
                match quiet { Outcome::Lines(printed, consumed_quiet) => {
                        if !printed.is_empty() { return Err(format!("{} LIMIT {} with printing switched off printed {:?}", st, n, printed)); }
                        if consumed_quiet > need { return Err(format!("{} LIMIT {} over {:?} with printing switched off consumed {} lines; its row number {} is produced by line {}", st, n, files, consumed_quiet, n, need)); } },
                    other => return Err(format!("{} LIMIT {} with printing switched off: {:?}", st, n, other)) }
            }
        } else if consumed != all.len() as u64 { return Err(format!("{} LIMIT {} over {:?}: an aggregate query reads everything, {} of {} lines were read", st, n, files, consumed, all.len())); }
    }
    Ok(())
}

#[test]
fn verif_grid() {
    let mut g = Grid::new("c07");
    let plain: Vec<&str> = PLAIN.iter().chain(PLAIN_DISTINCT.iter()).cloned().collect();
    let aggregate = ["SELECT k, COUNT(*) AS n, SUM(v) AS s FROM t GROUP BY k", "SELECT k, COUNT(*) AS n FROM t GROUP BY k HAVING COUNT(*) > 1",
                     "SELECT DISTINCT COUNT(*) AS n FROM t GROUP BY k", "SELECT COUNT(v) AS n FROM t"];
    let pool4 = ["k=a v=1", "k=a v=2", "k=b v=", "k=c v=7"];
    for (bi, base) in sequences(&pool4, 3).into_iter().enumerate() {
        for (si, st) in plain.iter().enumerate() {
            let (b1, st1) = (base.clone(), st.to_string());
            g.case(&format!("plain-b{}-s{}", bi, si), move || check(T, &st1, &[b1], false));
        }
        if bi % 3 == 0 { for (si, st) in aggregate.iter().enumerate() {
            let (b1, st1) = (base.clone(), st.to_string());
            g.case(&format!("aggregate-b{}-s{}", bi, si), move || check(T, &st1, &[b1], true));
        } }
        if base.len() == 3 && bi % 4 == 0 { for cut in 0..=3 { for (si, st) in [plain[0], plain[5], aggregate[0]].iter().enumerate() {
            let files = vec![base[..cut].to_vec(), base[cut..].to_vec()];
            let st1 = st.to_string();
            g.case(&format!("two-files-b{}-cut{}-s{}", bi, cut, si), move || check(T, &st1, &files, si == 2));
        } } }
    }
    // lines the table does not admit (no row comes of them) in front of and between the admitted ones: LIMIT counts rows, not lines
    let noisy: Vec<Vec<&str>> = vec![vec!["noise", "k=a v=1", "k=a v=2"], vec!["k=a v=1", "", "k=a v=2", "k=c v=7"], vec!["k=a v=1", "k=b v=", "k= =", "###", "k=c v=7", "k=a v=2"]];
    for (bi, base) in noisy.into_iter().enumerate() {
        for (si, st) in plain.iter().enumerate() {
            let (b1, st1) = (base.clone(), st.to_string());
            g.case(&format!("noisy-b{}-s{}", bi, si), move || check(T, &st1, &[b1], false));
        }
        for (si, st) in aggregate.iter().enumerate() {
            let (b1, st1) = (base.clone(), st.to_string());
            g.case(&format!("noisy-aggregate-b{}-s{}", bi, si), move || check(T, &st1, &[b1], true));
        }
    }
    // joins: several rows per line, rows that consist of NULLs only
    let hosts = write_temp("hosts", &join_lines(&["h=alpha site=eu", "h=beta site=us", "h=alpha site=ap", "h=delta site="]));
    let def = "CREATE TABLE t(line = '^u=(\\\\w+) h=(\\\\w*)$', line[1] => k TEXT, line[2] => host TEXT); \
               CREATE TABLE hosts(line = '^h=(\\\\w+) site=(\\\\w*)$', line[1] => name TEXT, line[2] => site TEXT);";
    let js = vec![
        format!("SELECT k, hosts.site FROM t INNER JOIN hosts::'{}' ON t.host = hosts.name", hosts.display()),
        format!("SELECT hosts.site FROM t OUTER JOIN hosts::'{}' ON t.host = hosts.name", hosts.display()),
        format!("SELECT DISTINCT hosts.site FROM t OUTER JOIN hosts::'{}' ON t.host = hosts.name", hosts.display()),
        format!("SELECT k, hosts.site FROM t INNER JOIN hosts::'{}' ON t.host = hosts.name WHERE hosts.site != 'eu'", hosts.display()),
    ];
    let jpool = ["u=ann h=alpha", "u=bob h=gamma", "u=cy h=beta", "u=dee h=delta"];
    for (bi, base) in sequences(&jpool, 2).into_iter().enumerate() { for (si, st) in js.iter().enumerate() {
        let (b1, st1) = (base.clone(), st.clone());
        g.case(&format!("join-b{}-s{}", bi, si), move || check(def, &st1, &[b1], false));
    } }
    let _ = std::fs::remove_file(&hosts);
    g.done();
}
