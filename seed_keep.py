#!/usr/bin/env python3
"""seed_keep.py <Cxx> <variant> <caught-by|NONE> <needs...>  - copies a confirmed sub-agent change into /verif/seeded/"""
import json, os, shutil, sys
p, v, caught = sys.argv[1], sys.argv[2], sys.argv[3]
needs = ' '.join(sys.argv[4:])
src = '/tmp/wt/%s/seed_out/%s' % (p, v)
dst = '/verif/seeded/%s_%s' % (p, v)
os.makedirs(dst, exist_ok=True)
for f in ('patch.diff', 'demo.rs', 'notes.md'):
    if os.path.exists(os.path.join(src, f)):
        shutil.copy(os.path.join(src, f), os.path.join(dst, f))
log = open('/tmp/seed_eval_%s.log' % p).read() if os.path.exists('/tmp/seed_eval_%s.log' % p) else ''
meta = {
    'property': p, 'variant': v,
    'origin': 'independent sub-agent that was given only the property text and a scratch worktree of /repo',
    'needs_to_manifest': needs,
    'confirmed': 'seed_confirm.sh: demo passes on the unchanged tree, the 229 existing tests pass with the change, the demo fails with the change',
    'ran': ['git -C /repo apply patch.diff', './run_check.py %s' % p, 'git -C /repo checkout -- .'],
    'reported_by': caught,
    'check_output': [l[:300] for l in log.split('\n') if l.startswith(('VIOLATION', 'UNDECIDED', 'OK', 'KNOWN'))],
}
json.dump(meta, open(os.path.join(dst, 'meta.json'), 'w'), indent=1)
print('kept', dst)
