"""Registry: which units decide which property.  Read by run_check.py."""

FLOAT_H = ['float_.*']
VALUE_H = ['value_laws_.*', 'value_int_order_is_numeric', 'value_float_order_is_float_order', 'value_null_is_least',
           'value_int_vs_real_numeric']

COMMON_TRUST = [
    'Verus 0.2026.09.13 + Z3, rustc 1.98.1 front end; Kani 0.68 / CBMC 6.11 for the scalar kernels',
    'extraction rules E1-E6 of DESIGN.md section 4 (vx/extract.py): the verified text is cut from /repo on every run; the rules that fired are listed under coverage.units',
]

CHECKS = {
    'C10': {
        'grid': {'sets': ['c10'], 'bound': 'FollowFileIterator over a file that a writer thread appends to: 7 contents (ASCII, multi-byte, empty lines, CRLF, 20000-byte lines, a tail completed later) x chunkings (single bytes, 2, 3, 5, 7, 4096, cuts around every newline and inside every multi-byte character) x reader buffers of 1, 2, 3, 16, 8192 bytes x writer pauses; start position through FollowFileExecutor with and without --head on 3 initial contents (about 1290 cases)'},
        'verus_units': ['follow', 'executor'],
        'clause_prefixes': ['c10', 'next.', 'new.', 'lemma.'],
        'technique': 'contract-based deductive verification (Verus) of the extracted FollowFileIterator, reader modelled by a nondeterministic callee contract, history lemma over the contract',
        'claim': 'Proof for all chunkings/poll placements/buffer sizes of the per-call contract of FollowFileIterator::next (Some(s) = exactly the old partial line plus the bytes consumed up to and including the first newline, verbatim; None = nothing lost) and of the start position chosen by FollowFileExecutor::new; lemmas lift it to exactly-once, in-order delivery over any history. Partial correctness; the reader is a specified stand-in.',
        'note': 'Trusted: std BufRead::read_until / Seek / from_utf8_lossy contracts on the VReader stand-in, extraction rules E1-E6, Verus+Z3. FollowFileExecutor::execute (the consuming loop) is proved in unit executor to hand every delivered line to the query once, in order, until LIMIT / error / interrupt. Not covered: OS file semantics (truncation, rotation).',
        'level': 'proof',
        'explanation': 'FollowFileIterator::new/next and FollowFileExecutor::new are extracted from /repo and verified by Verus against a '
                       'reader stand-in whose read_until may return any chunk (all writer chunkings, poll placements and buffer sizes are '
                       'the nondeterminism of that contract); two lemmas lift the per-call postcondition to the whole history: the stream '
                       'invariant consumed == delivered lines ++ partial line is preserved by every call, and the delivered sequence is '
                       'uniquely determined by the stream (no duplicate, split or merged line).',
        'trusted': COMMON_TRUST + [
            'std::io::BufRead::read_until behaves as documented (contract of VReader::read_until), Seek positions the cursor as documented',
            'String::from_utf8_lossy is a function of the bytes (identity on valid UTF-8 is std documentation, not proved)',
            'partial correctness only: next() polls forever at a quiet end of file by design (exec_allows_no_decreases_clause)',
            'the for-loop in FollowFileExecutor::execute that feeds each delivered line to the engine is not under contract',
        ],
        'unproved': ['output printing (OutputPrinter)', 'OS file semantics (truncation, rotation)'],
    },
    'C16': {
    'grid': {'sets': ['c16'], 'bound': 'every ordered pair and triple over 12 REAL, 9 INT, 7 TEXT and 4 TIMESTAMP values, observed through SQL: trichotomy, antisymmetry, transitivity of WHERE comparisons, and agreement of GROUP BY / DISTINCT / self-join with `=` (about 3450 cases)'},
        'verus_units': [],
        'technique': 'Kani/CBMC loop-free full-domain harnesses (complete proofs) on the real Float and derived Value impls in a scratch copy of the crate; counterexamples replayed on the real code',
        'claim': 'Proof (complete, not bounded) over all f64 bit patterns, i64 and bool that Float and the scalar variants of Value (NULL, INT, REAL, BOOLEAN) form a total order consistent with ==, partial_cmp and Hash; numeric order for INT and for REAL. INT-vs-REAL numeric ordering fails and is a known finding. Non-scalar variants are not covered.',
        'note': 'Trusted: Kani/CBMC and its rustc; String/Array/Timestamp/Interval comparison (std, chrono, derive composition) and the std/fnv containers that consume the order are not re-verified.',
        'kani': {
            'sets': ['value_order'],
            'quick': FLOAT_H + VALUE_H,
            'thorough': FLOAT_H + VALUE_H + ['value_trans_.*'],
            'assumptions': [
                'Kani/CBMC bit-precise semantics of f64 comparison and of the derived PartialEq/PartialOrd/Ord/Hash code as compiled by Kani\'s rustc',
                'CBMC returns one canonical NaN from floating-point arithmetic (the hardware keeps payloads): a law that depends on the payload of a COMPUTED NaN '
                'is outside the proof; the discharged harnesses are additionally executed on the compiled code over a grid of edge values (bounded stand-in, listed under bounded_units)',
                'String, Array, Timestamp and Interval variants are not covered by a harness (a symbolic String/Vec does not terminate in CBMC here); '
                'their laws rest on std/chrono and on #[derive] composing lexicographically',
                'consumers (BTreeMap, HashMap, FnvHashSet, sort, BTreeSet) are std/fnv code and are not re-verified',
            ],
        },
        'level': 'proof',
        'explanation': 'Loop-free Kani harnesses over every f64 bit pattern / i64 / bool on the real Float impls and the real derived Value impls, '
                       'one harness per ordered pair of scalar variants: trichotomy, cmp/eq/partial_cmp agreement, antisymmetry, transitivity, '
                       'eq => identical hasher input, numeric order.',
        'trusted': COMMON_TRUST,
        'unproved': ['Value::String / Array / Timestamp / Interval comparison and hashing (std, chrono, derive)'],
    },
}

CHECKS['C03'] = {
    'grid': {'sets': ['c03'], 'bound': 'every pair (a, b) over {NULL, 0, 1, -1, 2, i64::MAX, i64::MIN} x s in {x, NULL} (97 rows) x 38 projections / conditions against a reference evaluator written from the statement (one row each, and as WHERE over all rows); names, *, input, a column called input; timestamp comparisons by instant with a text literal on either side; 6 functions with column arguments over 4 rows (about 3700 cases)'},
    'verus_units': ['eval', 'select', 'mapping', 'valuetype', 'converter'],
    'clause_prefixes': ['c03', 'value.', 'engine.', 'row.', 'select.'],
    'technique': 'contract-based deductive verification (Verus): arms of ExpressionExecutionEngine::evaluate extracted from /repo and proved against a recursive specification sem_eval written from the property text; structural induction through the contract of evaluate',
    'claim': 'Proof, for all expression trees, rows and values, that the extracted arms of evaluate (literal, column access, comparison, IS, arithmetic, unary, AND/OR, IN/NOT IN, subscript, CASE, aggregate reference) return exactly sem_eval(expression, row) - comparisons by value and false on NULL, NULL-propagating arithmetic with overflow and division by zero as errors, two-valued logic, IN as OR of =, first true CASE branch, 1-based subscripts - or an error when sem_eval has no value. Function calls: the arguments are evaluated left to right and the first one without a value ends the call; make_timestamp (seven INT parts as documented, a part that does not fit its field gives NULL, never a wrapped date), greatest / least (same-type pairs, NULL gives NULL), abs and pow (exact or no value), sqrt, length (characters), upper / lower, EXTRACT year..second, array_length are proved equal to sem_function written from the README; Statement lowering (unit converter): create_select_statement keeps the projections in order, names each output column by its alias, else its column name, else p<i>, and passes FROM / WHERE / LIMIT / DISTINCT through; transform_statement makes a query with GROUP BY or an aggregate an aggregate query; the arms of transform_expression for literals, columns, binary / boolean / unary operators, NOT, IS, subscripts and casts are proved equal to sem_lower_st (operator symbols mean the SQL operators, operands stay in written order, a column in HAVING becomes the group\'s key part numbered in order of appearance). Casts (TypeConversion) are proved equal to sem_convert (text is parsed as the target type, an interval counts its seconds, a value of the target type is itself, anything renders as text, every other combination has no value); array_cat / array_append / array_prepend are proved against relational specifications (element order, element type check); for each of these functions a call with the documented number of arguments is proved to reach the arm of its function (rule E3d).',
    'note': 'Trusted: derived comparison of Value (uninterpreted value_cmp; its laws are C16), IEEE and chrono arithmetic as uninterpreted total functions, ValueType::parse, closure/loop contracts spliced by ordinal (rule E5). Unproved: the FunctionCall arms regexp_matches, array / array_unique, now, EXTRACT(EPOCH), date_trunc (chrono / regex / iterator adapters); lowering of parse trees and result column names are not covered.',
    'level': 'proof',
    'explanation': 'Each match arm of evaluate is emitted as its own function (rule E3) whose body is the arm text from /repo; recursive calls see the full contract of evaluate, so the arms together are a proof by structural induction that evaluate refines sem_eval.',
    'trusted': COMMON_TRUST + [
        'value_cmp (derived Ord on Value) is uninterpreted here; C16 establishes its laws on the real impls',
        'f64 arithmetic and chrono DateTime/Duration arithmetic are uninterpreted total functions (chrono range overflow is not modelled)',
        'termination of evaluate (recursion on strict sub-expressions) is not checked: evaluate is external_body for its callers',
    ],
    'unproved': ['evaluate arms FunctionCall for regexp_matches, array, array_unique, now, EXTRACT(EPOCH), date_trunc', 'parser_tree_converter::transform_expression arms IN / Call / CASE (closures capturing the lowering state), extract_aggregate (recursive in-place swap)'],
}
CHECKS['C09'] = {
    'grid': {'sets': ['c09'], 'bound': '68 expressions / functions and 24 aggregates x 26 lines of extreme data (64-bit ends, NaN / infinities, zero divisors, huge and negative subscripts, absent groups, NULLs, out-of-range and DST-gap date parts, malformed JSON, non-text bytes) x text / JSON / CSV output, lines alone, in pairs and all together (about 7300 runs); the only oracle is: no panic'},
    'verus_units': ['eval', 'follow', 'select', 'engine', 'extract', 'parser', 'tokenizer', 'converter', 'valuetype', 'output', 'executor', 'aggregate', 'aggdispatch', 'aggresult', 'join', 'joinload', 'mapping', 'visit'],
    'only_safety': True,
    'clause_prefixes': ['c09'],
    'technique': 'contract-based deductive verification (Verus): absence of arithmetic overflow, division by zero, failed callee preconditions (unwrap, indexing, unreachable!) in every extracted function',
    'claim': 'Proof that the extracted functions (listed in the evidence) cannot overflow, divide by zero, index out of bounds, unwrap None or reach unimplemented!/panic! for any input; this is the safety half of the obligations of the other checks, collected per function. Functions not under contract are listed as unproved.',
    'note': 'Trusted: as for the units involved. Termination is proved only where a decreases clause exists. Not covered: OutputPrinter, the grammar functions of the parser, chrono internals, local time zone handling.',
    'level': 'proof',
    'explanation': 'Verus generates, for every extracted function, the obligations that each arithmetic operation fits its type, each divisor is non-zero, each index is in bounds and each callee precondition (including `requires false` of the unimplemented!/panic! stand-in) holds; this check counts exactly those.',
    'trusted': COMMON_TRUST,
    'unproved': ['record text rendering (format!, serde_json::to_string)', 'Parser::parse_* grammar functions, parser_tree_converter', 'ValueType::parse (chrono, Local time zone)', 'evaluate arms FunctionCall for regexp_matches / array / array_unique / now / EXTRACT(EPOCH) / date_trunc'],
}

CHECKS['C08'] = {
    'grid': {'sets': ['c08'], 'bound': 'every sequence of up to 4 lines over a 5-line pool x 6 plain and 5 aggregate statements, REAL pool with 0.0 / -0.0 / 1 / 1.0 / 1.5 up to 3 lines, recurrence after 500 / 700 lines, integers next to 2^53 and at the 64-bit ends (about 3750 cases)'},
    'verus_units': ['select', 'aggresult', 'converter'],
    'kani': {
        'sets': ['value_order'],
        'quick': ['float_eq_implies_same_hash', 'float_eq_reflexive', 'float_cmp_agrees_with_eq', 'value_laws_float_float', 'value_laws_int_int', 'value_laws_null_null', 'value_laws_bool_bool'],
        'thorough': ['float_.*', 'value_laws_.*'],
        'assumptions': ['the hash/eq consistency of Value that the DISTINCT set relies on is re-checked here with the C16 harnesses (scalar variants)'],
    },
    'clause_prefixes': ['c08'],
    'technique': 'contract-based deductive verification (Verus): DistinctValues::add and the DISTINCT branch of SelectExecutionEngine::execute extracted from /repo, set membership modelled by Value equality classes',
    'claim': 'Proof for all rows and histories of one engine that, on the non-aggregate path, DistinctValues::add returns true exactly for a tuple with no value-equal predecessor and remembers exactly that tuple, and that SelectExecutionEngine::execute emits the projected row iff WHERE is true and (not DISTINCT or first occurrence), otherwise leaves the memory unchanged; surviving rows are emitted unchanged. Aggregate path (unit aggresult): the row loop of execute_result is proved to keep, in group order, exactly the rows that HAVING accepts and - with DISTINCT - whose tuple does not equal an EARLIER KEPT row of the same table (fresh memory per table), with or without HAVING; accept_group (HAVING) and extract_result_rows_by_column are stand-ins there.',
    'note': 'Trusted: FnvHashSet<Vec<Value>> behaves as a set under Value\'s Eq/Hash (stand-in VRowSet; hash/eq consistency is C16), Vec<Value>::clone copies. In execute_result the PERCENTILE refresh loop (nested iter_mut), the group-key mapping, extract_result_rows_by_column and accept_group are stand-ins (assumed functions of the aggregation state).',
    'level': 'proof',
    'explanation': 'The abstract DISTINCT memory is the sequence of remembered tuples; membership is pointwise value_eq. The contract of execute is stated over that view and over sem_eval of the projections.',
    'trusted': COMMON_TRUST + ['fnv::FnvHashSet contains/insert as a mathematical set over Eq classes of Vec<Value> (assumed; relies on C16 laws)'],
    'unproved': ['the ORDER in which ExpressionTree::visit reaches the nodes (uninterpreted: rule E4-visit); that it reaches every sub-expression is proved in unit visit for a visitor without state', 'iter_mut loop headers of the PERCENTILE refresh'],
}

CHECKS['C07'] = {
    'grid': {'sets': ['c07'], 'bound': 'every sequence of up to 3 admitted lines over a 4-line pool (also cut into two files) x 8 plain/DISTINCT, 4 aggregate and 4 join statements x every n in 0..rows+2; 3 inputs with lines the table does not admit x all 12 statements (about 1110 cases, each with all n)'},
    'verus_units': ['engine', 'executor', 'converter', 'aggresult'],
    'clause_prefixes': ['c07', 'out.'],
    'technique': 'contract-based deductive verification (Verus): ExecutionEngine::update_limit / reached_limit / execute extracted from /repo; prefix lemma over the update_limit contract',
    'claim': 'Proof for all outputs, limits and row counters that update_limit keeps exactly the prefix of rows the LIMIT still allows, counts every kept row (NULL-only rows included), and raises reached_limit exactly when the count reaches n (at once for n = 0 via reached_limit()); that execute applies it to every SELECT line and truncates the final aggregate table to the first n groups; lemma: over any sequence of calls the emitted rows are the first n rows of the unlimited output. The reader loops that must stop consuming input are covered by the executor unit (C12) where claimed.',
    'note': 'Trusted: Vec::truncate / drain specifications, the SELECT and aggregate engines as abstract state machines. The join branch of execute_select is stubbed (assumed), so fan-out rows are covered only through update_limit\'s contract on whatever rows arrive.',
    'level': 'proof',
    'explanation': 'update_limit is verified verbatim; execute is verified verbatim against callee contracts; lemma_limit_prefix turns the per-call contract into "first n rows of the unlimited result".',
    'trusted': COMMON_TRUST + ['join branch of execute_select/execute_aggregate* replaced by an assumed stub (rule E3b) because Verus rejects FnMut closures that capture &mut state'],
    'unproved': ['LIMIT accounting is proved for the rows a join returns, the rows themselves come from execute_join (unit join)'],
}
CHECKS['C06'] = {
    'grid': {'sets': ['c06'], 'bound': '5 table definitions (plain, NOT NULL, BOOLEAN, DEFAULT + NOT NULL with two patterns, join) x every sequence of up to 2 admitted lines x one non-admitted line at each position or all kinds at every position (also inside the joined file) x 5-16 statements each; 16 (definition, line) admission pairs (about 5300 cases)'},
    'verus_units': ['engine', 'extract', 'follow'],
    # follow mode: the reader hands every line on verbatim and keeps nothing of a line it has delivered (unit follow, clauses `next.*`)
    'clause_prefixes': ['c06', 'next.'],
    'technique': 'contract-based deductive verification (Verus): frame postconditions on ExecutionEngine::execute_select / execute_aggregate / execute_aggregate_update extracted from /repo',
    'claim': 'Proof that for a line whose extracted row has no non-NULL column (which includes every NOT NULL failure, see C01) the three per-line entry points return an empty output and leave the whole engine (DISTINCT memory, aggregation state, row counter) unchanged, for all tables, statements and lines. In follow mode the reader (FollowFileIterator::next, unit follow) delivers each completed line verbatim and clears its buffer, so a non-admitted line leaves nothing behind for the next one. Consequently inserting or deleting such lines cannot change any later result of that engine.',
    'note': 'Trusted: Iterator::any behind the vx_any stand-in (true after the predicate held for some element, false after it failed for every element); Row::any_result itself is under contract. TableDefinition::extract is abstract here (unit extract proves the NOT NULL cut). Loading of the joined file goes through the same execute_select, so it is covered by the same contract.',
    'level': 'proof',
    'explanation': 'admitted(row) := exists a non-NULL column; the contracts say !admitted ==> output empty and *final(self) == *old(self).',
    'trusted': COMMON_TRUST + ['Iterator::any (vx_any stand-in)'],
    'unproved': ['state of the sub-engine after a joined line (callback effect not modelled)'],
}
CHECKS['C11'] = {
    'grid': {'sets': ['c11'], 'bound': 'every sequence of up to 3 lines and a seventh of those of 4 lines over a 7-line pool (one non-admitted) x 7 aggregate statements (HAVING that a group can stop satisfying, DISTINCT, PERCENTILE) and 7 plain / DISTINCT statements, every prefix length (about 4800 cases)'},
    'verus_units': ['engine', 'aggdispatch', 'aggresult', 'visit'],
    'clause_prefixes': ['c11'],
    'technique': 'contract-based deductive verification (Verus): ExecutionEngine::execute dispatch, execution_config, ExecutionConfig constructors, AggregateExecutionEngine::execute extracted from /repo; induction lemma over the per-line contracts',
    'claim': 'Proof (dispatch, cell refresh, row assembly) that with {update,result} each line folds into the aggregation state exactly as with {update} alone and the table shown is the table of the state after that line, that {result} alone shows the table of the current state without changing it, and (lemma) that the state after k lines is therefore identical in follow and batch mode. Inside execute_result two parts are proved: the refresh of a PERCENTILE cell (the body of the inner loop, rule E3c) overwrites exactly that cell with the value the aggregator shows now and running aggregates touch nothing, and the row assembly builds the table from the per-group cells with a DISTINCT memory that is fresh for every table (unit aggresult). The columns (extract_result_rows_by_column) and HAVING (accept_group) are proved to be functions of the group cells; that the iter_mut loop headers of the refresh visit every aggregator once is assumed.',
    'note': 'ASSUMED, not proved: the parts of AggregateExecutionEngine::execute_result that are not extracted (iter_mut loop headers) are functions of the aggregation state and do not modify it; result_wf (key arity, validated group-key columns) holds for the state. Non-aggregate statements: rows emitted for line k depend on line k and the DISTINCT memory only (select unit).',
    'level': 'proof',
    'explanation': 'Dispatch in ExecutionEngine::execute and AggregateExecutionEngine::execute (unit engine) over an abstract state machine (agg_step, agg_table); execute_result/refresh-cell (unit aggdispatch) and the row loop of execute_result (unit aggresult) discharge the part of "agg_table is a function of the state" that lies in extracted code.',
    'trusted': COMMON_TRUST + ['AggregateExecutionEngine::execute_update / execute_result as an abstract state machine (agg_step, agg_table)'],
    'unproved': ['the ORDER in which ExpressionTree::visit reaches the nodes (uninterpreted: rule E4-visit); that it reaches every sub-expression is proved in unit visit for a visitor without state', 'iteration order and coverage of the iter_mut loops in execute_result'],
}

CHECKS['C01'] = {
    'grid': {'sets': ['c01'], 'bound': '14 column definitions (TEXT / INT / REAL / BOOLEAN, DEFAULT, whole match, TEXT[] array, TRIM, 3- and 6-part TIMESTAMP, split fields) over 3 capture patterns, a split pattern and an inline pattern x 32 lines (partial and no match, empty groups, 64-bit extremes and beyond, out-of-range date parts, two matches on a line, padding), each line alone and all lines as one file (about 490 cases); oracle = the regex crate on the line + the conversion rules of the statement'},
    'verus_units': ['extract', 'valuetype', 'parser', 'converter'],
    'clause_prefixes': ['c01'],
    'technique': 'contract-based deductive verification (Verus): ColumnParsing::extract_using_regex, the Regex / MultiRegex-array / MultiRegex-timestamp arms of ColumnParsing::extract, ColumnDefinition::default_value and TableDefinition::extract extracted from /repo against a specification of "the referenced group of the referenced pattern, typed"',
    'claim': 'Proof for all column definitions, match results and lines that each regex/split column holds exactly sem_ref(type, line, reference, default): the text of the referenced group of the referenced pattern converted by the declared type (BOOLEAN = presence, NULL when not a literal, DEFAULT/NULL when pattern or group did not take part), arrays position by position, TIMESTAMP columns built from exactly the integer groups as mathematical integers (an out-of-range part gives the default, never a wrapped value), the second group also as an English month name (only the twelve abbreviations, june, july, sept, compared in lower case), a listed group that did not take part or is neither gives NULL / the DEFAULT - never a timestamp assembled from the other groups -, TRIM on TEXT only, and that the row is all columns in definition order or empty at the first NULL NOT NULL column.',
    'note': 'Trusted: the regex crate (leftmost match, group text, split) behind the VCaptures / VRegexResults stand-ins, ValueType::parse as an uninterpreted function inside unit extract (its body is under contract in unit valuetype: the result has the requested type or is NULL, TEXT verbatim, INT / REAL / BOOLEAN by the std parsers, INTERVAL needs three fitting parts; the chrono TIMESTAMP parser is a stand-in), chrono civil-time construction (sem_civil), str::trim. CREATE TABLE side (units parser, converter): Parser::parse_create_table is proved to return, for every token vector, one column per written column definition in the written order, each with exactly the written pattern[group] references (all of them, in order), the inline form bound to group 1 of a capture pattern of its own, a { path } column with exactly the written steps, and the patterns (name, text, split/match mode) as written; parse_define_column is proved to set exactly the option its modifier token names (NOT NULL, TRIM on TEXT only, CONVERT, MICROSECONDS, DEFAULT literal of the column type); create_create_table_statement / transform_statement are proved to carry name, patterns and columns into TableDefinition::new unchanged with the documented defaults for undeclared options; TableDefinition::new (unit extract) keeps patterns by name in order. Unproved: the month-name branch of the timestamp arm (stubbed).',
    'level': 'proof',
    'explanation': 'sem_column / sem_row are written from the property statement over an abstract match result; the extracted code is proved equal to them, loop invariants spliced by ordinal.',
    'trusted': COMMON_TRUST + ['regex crate semantics behind stand-ins', 'ValueType::parse, str::trim, chrono NaiveDate/NaiveTime construction as uninterpreted functions'],
    'unproved': ['regex crate (matching)', 'vx_pattern_refs: the closure that borrows (name, text, mode) triples for TableDefinition::new is a stand-in (tuple-pattern closure returning borrows)', 'the expression parser behind DEFAULT literals (stand-ins)'],
}
CHECKS['C02'] = {
    'grid': {'sets': ['c02'], 'bound': '20 JSON-path column definitions (every scalar type, nested paths, array indexes, CONVERT, DEFAULT, an array column; a regex column beside them) x 30 lines (nesting, whitespace around the document, wrong-typed leaves, numbers beyond i64 / f64, duplicate keys, arrays, empty containers, non-JSON, truncated JSON, CONVERT of padded strings); NOT NULL / DEFAULT interplay on 6 lines (about 600 cases), oracle = serde_json parse of the line + the conversion rules of the statement'},
    'verus_units': ['extract', 'parser', 'converter'],
    'clause_prefixes': ['c02'],
    'technique': 'contract-based deductive verification (Verus): JsonAccess::get_value (recursive, with decreases), the Json arm of ColumnParsing::extract and the scalar arms of ValueType::convert_from_json extracted from /repo against json_walk / sem_from_json',
    'claim': 'Proof for all paths and JSON trees that get_value returns exactly the value addressed by following fields and array indexes (None as soon as a step is absent), and that a JSON column is that value converted without coercion (INT only from as_i64, REAL from as_f64, TEXT only from strings, BOOLEAN only from booleans, arrays element by element with the element type (nested arrays by recursion on the type; an element of another JSON type is NULL; not a JSON array = NULL), CONVERT = parse of a JSON string as the declared type, wrong type = NULL, absent path = DEFAULT/NULL). Termination of the path walk is proved.',
    'note': 'Trusted: serde_json parsing and accessors behind the VJson stand-in (as_i64 only for integers within 64 bits etc. is serde_json documentation). The JSON column syntax is covered in units parser / converter: parse_create_table returns for `{ .a.b[0] } => name TYPE` a JSON column whose path is exactly the written steps in order (JsonAccess::from_linear under contract), with the modifier its token names, and the lowering keeps it. Unproved: element-wise array conversion (iterator chain, stubbed arm).',
    'level': 'proof',
    'explanation': 'json_walk is the recursive specification of the path; the extracted get_value is proved equal to it with decreases self.',
    'trusted': COMMON_TRUST + ['serde_json::Value accessors as specified stand-ins'],
    'unproved': ['serde_json::from_str'],
}

CHECKS['C13'] = {
    'grid': {'sets': ['c13'], 'bound': 'complete over the operator table for expressions of two and three binary operators between plain operands (144 + 1728 cases); IS [NOT] NULL / [NOT] IN around every operator; NOT, unary minus, negative literals, cast / subscript / qualified operands on either side of every operator; parenthesised operands (also in the middle of every operator pair); line breaks between an operator and a unary minus; IS / IS NOT with a general right operand before and after every operator and with cast / subscript / qualified / negated operands (about 2600 cases)'},
    'verus_units': ['parser', 'tokenizer', 'converter'],
    'clause_prefixes': ['c13'],
    'technique': 'contract-based deductive verification (Verus): BinaryOperators::new / get, Parser::get_token_precedence, Parser::parse_unary_operator and tokenize extracted from /repo; the precedence numbers are read from the source on every run, the functions are proved to use exactly them, and a lemma proves that the numbers realise the standard SQL chain',
    'claim': 'Proof that the precedence table the parser consults (symbolic operators, IS/IN/AND/OR keywords, ::, [ ]) and the operand levels of prefix NOT and unary minus realise OR < AND < NOT < comparisons = IS = IN < + - < * / < unary minus <= :: = [ ] <= qualified names, and that get_token_precedence / parse_unary_operator use exactly these numbers. The body of parse_binary_operator_rhs is verified too, with the textbook invariant of precedence climbing as an in-body obligation: the right operand of an operator of level p is extended only through a recursive call with minimum level p + 1 (tighter operators only, equal levels associate to the left). The tokenizer (unit tokenizer) is proved to fuse two operator characters only when they are adjacent in the text and only for the pairs listed in the source, which a lemma pins to <= >= != -- (and =>): an operator followed by a minus sign stays two tokens. Operands (parse_primary_expression, parse_identifier_expression, parse_list, parse_arguments): ( e ) not followed by a comma IS the expression e (parentheses are accepted wherever an operand is and add nothing), only ( e , ... ) is a tuple and it has at least two elements, a list always has at least one element, a bare name is a column. The lowering of operator nodes (unit converter) keeps the operands in written order and maps each symbol to its SQL operator. NOT covered: a full proof that the resulting tree is the reference grouping; the one-element IN list is handled inside parse_binary_operator_rhs (verified body, no separate clause) and demonstrated by a replay.',
    'note': 'Trusted: HashMap<Operator, BinaryOperator> as a finite map (VOpMap), derived Token equality, parse_binary_operator_rhs / parse_primary_expression as stand-ins that only record the minimum precedence they are called with. A renumbering of the levels that keeps the order verifies; a change of the order fails the lemma.',
    'level': 'proof',
    'explanation': 'Table-level proof (DESIGN C13): self-generated conditions - constants P_* are cut from the source text, the extracted functions must return them, lemma_precedence_chain relates them as the property demands.',
    'trusted': COMMON_TRUST + ['parse_primary_expression / parse_expression_internal are stand-ins; the recursive call of parse_binary_operator_rhs is a stand-in that records its minimum level'],
    'unproved': ['reference-grouping correctness of the whole expression parser', 'keyword table content (KEYWORDS) and IS NOT / NOT IN keyword fusion', 'statement grammar (parse_select ...)'],
}
CHECKS['C14'] = {
    'grid': {'sets': ['c14'], 'bound': '16 valid statements: every prefix, every single token deleted / duplicated / swapped with its neighbour; 3000 token soups over an 85-word vocabulary and 1500 random Unicode strings from a fixed generator; bracket / NOT / minus / subscript nesting to depth 200; 9 definitions and queries that must be rejected (about 7370 cases)'},
    'verus_units': ['parser', 'tokenizer', 'converter', 'extract'],
    'clause_prefixes': ['c14'],
    'technique': 'contract-based deductive verification (Verus) of tokenize (with its local TokenizerState), TokenLocation::extract_near and the parser\'s token cursor (Parser::new/next/current/current_location/create_error/expect_token/expect_and_consume_token, ParserError::new) extracted from /repo',
    'claim': 'Proof for every text that parse_str (tokenize, then the recursive-descent parser) returns a parse tree or an error whose position lies inside the text: every parser function carries the postcondition that an error points at a token, every token is located inside the text; proof that tokenize cannot panic, that the line/column it keeps are the position of the consumed prefix, that every token and every tokenizer error is located inside the text (the position of some offset 0..=len) and that the token vector ends with Token::End; proof that TokenLocation::extract_near cannot panic for any location and text (every word range lies inside the line, no index underflow); proof that parse / parse_select / parse_multiple_create_table / parse_create_table / parse_define_column / parse_type (a statement is accepted only if every token up to End was consumed; every clause loop keeps the cursor on a token) and the operand-level functions (parse_primary_expression, parse_identifier_expression, parse_list, parse_arguments, consume_identifier / consume_string / consume_int, expect_and_consume_operator) keep the cursor on a token and fail with a located error instead of panicking; proof (cursor kernel) that once the first next() succeeded the parser cursor stays inside the token vector, next() at the end is an error and not a step, current()/current_location() never index out of bounds and every error created carries the location of a real token. NOT decided: termination of the parser (recursion depth), the arms of the tree converter that are not under contract, and the precedence-climbing function as a callee (its body is verified; as a callee it is a stand-in that is ASSUMED to keep the cursor on a token and to report errors at tokens).',
    'note': 'Trusted: Peekable<Chars> as a cursor over the character sequence (VChars), Unicode class predicates uninterpreted (a line break is not alphanumeric), str::lines().nth / chars().collect / String::from_iter(&v[a..b]) / format! as stand-ins with the slice-range precondition, Vec length <= usize::MAX. Termination of the tokenizer loops is not proved. The statement grammar (parse_select, parse_join, parse_create_table, parse_define_column, parse_type, parse_regex_mode, ...) is under contract for cursor safety, error location and - new - monotonicity: no grammar function ever moves the cursor back (assumed for the two stand-ins of the recursive expression core). The panics found earlier (extract_near underflow, empty JSON path, string_agg arity) were repaired and are demonstrated by replays.',
    'level': 'proof',
    'explanation': 'Tokenizer: loop invariant at_offset(state, text, n) (rest of the iterator = text.skip(n), line = number of line breaks and column = characters after the last line break of text.take(n)); next_char and add carry it in universally quantified postconditions. Cursor safety is the invariant 0 <= index < tokens.len() established by next() and required by every accessor.',
    'trusted': COMMON_TRUST,
    'unproved': ['precedence climbing core (parse_expression_internal / parse_binary_operator_rhs are stand-ins with assumed contracts)', 'parser_tree_converter: transform_expression arms IN / Call / CASE, extract_aggregate (iterator closures, in-place swap)'],
}

CHECKS['C12'] = {
    'grid': {'sets': ['c12'], 'bound': 'every file content of up to 2 lines over a 4-line pool with LF / CRLF / no final terminator (109 contents) as one file, all ordered pairs of 21 of them and all ordered triples of 6 as several files; lines of 1 byte .. 3 MB; 2 x 3000 lines; invalid-UTF-8 lines in the input and in the joined file; SELECT input, COUNT(*) and an inner join whose joined file is the grid file (1247 cases)'},
    'verus_units': ['executor', 'joinload', 'converter', 'engine'],
    # "reaches the query": the line handed to ExecutionEngine::execute is the line the statement is evaluated on (unit engine)
    'clause_prefixes': ['c12', 'select-line-output-is-the-limited-prefix-of-the-select-step', 'select-step-on-this-lines-row-only', 'update-folds-exactly-this-lines-row', 'batch-line-folds-and-shows-nothing', 'follow-line-shows-the-table-of-the-state-after-the-line'],
    'technique': 'contract-based deductive verification (Verus): FileExecutor::execute (both nested reader loops, labelled break) extracted from /repo and proved equal to a recursive run function sem_run; the property is proved as lemmas about sem_run',
    'claim': 'Proof for all files (item sequences), engines and flag values that the lines handed to the query by FileExecutor::execute are exactly sem_run(history, files, flag): files in command-line order, lines in file order, each at most once, stopping only at an unreadable line (reported as Err), a failing query (Err), a reached LIMIT or an interrupt; lemma: when nothing stops the run, every line of every file reaches the query exactly once in order, so several files equal their concatenation; statistics.total_lines counts exactly those lines. ExecutionEngine::execute evaluates the statement on exactly the line it is handed (unit engine: the SELECT step / the aggregate fold are functions of line@). The joined file: JoinedTableData::execute hands every line to its engine once, in file order (unit joinload), and the statement of that engine is SELECT * without WHERE / LIMIT / DISTINCT (unit converter, slice execute/statement).',
    'note': 'Trusted: BufRead::lines() yields the items of the file in order (stand-in VReader::lines, materialised: rule E4), std::mem::take, the engine as a state machine over its line history, statistics counters do not overflow within a run (vx_count_* stand-ins). The byte-level splitting of a file into lines (final line without newline, CRLF) is std::io::Lines, not verified. The loader of the joined file (JoinedTableData::execute) is covered by unit joinload in the same style (sem_load).',
    'level': 'proof',
    'explanation': 'code == sem_run is proved against the extracted text with loop invariants in forward style; lemma_every_line_of_every_file, lemma_interrupted_run_consumes_nothing and lemma_limit_reached_consumes_nothing are pure spec-level inductions.',
    'trusted': COMMON_TRUST + ['std::io::BufRead::lines line splitting'],
    'unproved': ['main.rs collection of input files (no contract; the bounded grid runs the command-line binary over files given in unsorted order and twice)'],
}
CHECKS['C19'] = {
    'grid': {'sets': ['c19'], 'bound': 'every sequence of up to 3 lines (a quarter of those of 4) over a 5-line pool, also cut into two files, x 5 plain statements x interrupt at every printed record; 14 statements interrupted before the start; unreadable line after the interrupt; joined-file loading after an interrupt with rows / foreign lines in 5 layouts of 60 lines (about 1540 cases)'},
    'verus_units': ['executor', 'joinload'],
    'clause_prefixes': ['c19'],
    'technique': 'contract-based deductive verification (Verus) of FileExecutor::execute with the running flag as a specified stand-in; degenerate schedules only',
    'claim': 'Proof for the two degenerate schedules (flag cleared before the run / never cleared): with the flag cleared no further line reaches the query, no error is reported, and an aggregate statement still prints the table of exactly the lines consumed (one result call); with the flag set the run is the uninterrupted one. A flip BETWEEN two loads is not modelled (load(&self) cannot change in Verus without atomics in the source), so "every point at which the flag can be cleared" is not decided.',
    'note': 'Trusted: AtomicBool::load returns the flag value; the flag is constant during the call (interior mutability is invisible). This catches a check that is removed, inverted or moved behind the consuming call. FollowFileExecutor::execute and JoinedTableData::execute (flag looked at before every 10th line; lemma: at most ten more lines) are covered in the same way (flag constant).',
    'level': 'proof',
    'explanation': 'Rides on the executor unit; lemma_interrupted_run_consumes_nothing.',
    'trusted': COMMON_TRUST + ['flag constant during one call'],
    'unproved': ['interleavings of the ctrl-c handler with the loop'],
}

CHECKS['C04'] = {
    'grid': {'sets': ['c04'], 'bound': 'every sequence of up to 3 rows, a ninth of those of 4 and about 1% of those of 5 over a 7-row pool (NULL keys, NULL arguments, all-NULL groups, TEXT arguments) x 9 statement shapes against aggregates computed per group from the written rows (about 4000 cases); every statement has COUNT(*), so the two known findings (no cell at all) are outside this grid'},
    'verus_units': ['aggregate', 'aggdispatch', 'aggresult', 'converter', 'visit'],
    'clause_prefixes': ['c04', 'value.modify', 'value.map-numeric', 'value.default'],
    'technique': 'contract-based deductive verification (Verus): GroupAggregator::default / update (all arms) / is_null, ensure_sum_fits and Value::modify_same_type_numeric_nullable / map_numeric extracted from /repo against step functions written from the property text',
    'claim': 'Proof (fold kernel and per-group dispatch) for all states and values that one update step of each running aggregate is exactly the documented step and that update_aggregate folds a row into the cell of ITS group and aggregate index only (get_group: an existing cell is returned as it is, the default is computed only for a missing cell; COUNT / COUNT(DISTINCT) add one exactly for qualifying rows; MIN / MAX by value order; NULL arguments never wipe an accumulated value; ARRAY_AGG appends in arrival order; STRING_AGG joins with the delimiter); execute_update leaves the state untouched for rows that fail WHERE. Step level: SUM / AVG / STDDEV-VARIANCE bookkeeping add the value exactly or report an error (never wrap), the first value only initialises, AVG shows sum/count, PERCENTILE collects every value, BOOL_AND / BOOL_OR combine two-valued, COUNT(DISTINCT) counts a value only at its first occurrence; the unimplemented!() arms of default are unreachable under its precondition. Result path (unit aggresult): extract_result_rows_by_column builds one named column per select-list aggregate with exactly one value per group in key order, each taken from that group (its key component, or its own cell through the select-list expression; COUNT 0 / NULL when no row of the group qualified), and execute_result zips the columns position by position into rows, applies HAVING per group and DISTINCT among the kept rows. Known findings: a group none of whose aggregates got a qualifying row (COUNT(c), STRING_AGG(c) with c NULL throughout) is missing from the result. update_aggregates (unit aggdispatch): the group key of a row is the values of its GROUP BY expressions on that row (map_result_vec is verified: one result per element in order, or an error), a row without a key is an error that aggregates nothing, and every select-list aggregate is dispatched exactly once, in order, under its own index for that key (fold_select_list); a group-key column is validated against the GROUP BY list on every admitted row (validate_group_key, the GroupKey arm); the dispatching match of update_aggregate hands every aggregate to the arm that was proved for it (rule E3e); execute_update folds exactly the rows that pass WHERE. PERCENTILE (update_value) shows the value at rank min(floor(p*n), n-1) of the sorted values of the group, never one past the end, and the refresh of a shown cell overwrites exactly that cell. HAVING (accept_group) is evaluated on the group\'s own key parts (by GROUP BY position) and its own cells (select-list count + j; COUNT 0 / NULL when missing), and an aggregate inside an expression (evaluate, Aggregate arm) denotes exactly the value bound under its name. Lowering (unit converter): transform_call_aggregate maps each aggregate name to its aggregate over the lowered argument, COUNT takes nothing, * or one column, and a wrong number of arguments or an unknown name is an error; transform_aggregate allows one aggregate per select-list entry and turns an entry without aggregate into a group-key column; create_aggregate_statement keeps the entries in order under their indices. NOT decided: the HAVING aggregates inside update_aggregates (closure over &mut self, stubbed), extract_having_aggregates (visitor closure).',
    'note': 'Trusted: HashSet<Value> as a set under Value equality (VValueSet), f64 arithmetic and chrono Duration arithmetic as uninterpreted functions, the variance formula closure and the INTERVAL squaring closure are stubbed (assumed). The IEEE product and the float-to-usize cast of the PERCENTILE rank are an uninterpreted function (percentile_position).',
    'level': 'proof',
    'explanation': 'sum_step etc. are the semantic steps; C15 lemmas lift them to order-insensitivity.',
    'trusted': COMMON_TRUST + ['std HashSet<Value> / BTreeMap / HashMap behaviour', 'float and interval arithmetic uninterpreted'],
    'unproved': ['the ORDER in which ExpressionTree::visit reaches the nodes (uninterpreted; the two visitor closures are verified as loops over that order: rule E4-visit); that it reaches every sub-expression is proved in unit visit for a visitor without state', 'Vec<Value>::sort (sorted permutation stand-in)', 'iter_mut loop headers of execute_result'],
}
CHECKS['C15'] = {
    'grid': {'sets': ['c15'], 'bound': 'every multiset of 2..4 lines over a 7-line pool, all its permutations, x 6 statements (COUNT, COUNT(c), COUNT(DISTINCT), SUM, MIN, MAX, AVG, PERCENTILE, BOOL_AND, BOOL_OR; GROUP BY / WHERE / HAVING) and STDDEV / VARIANCE to 9 decimals; every cut of every sequence of 2..3 lines (a fifth of those of 4) into two parts for the key-wise combination; MIN / MAX over all triples of 8 number-like and other TEXT values in every order (about 5400 cases with the families of the source header)'},
    'verus_units': ['aggregate', 'aggdispatch'],
    'kani': {
        'sets': ['value_order'],
        'quick': ['float_trichotomy', 'float_cmp_antisymmetric', 'float_cmp_transitive', 'float_cmp_agrees_with_eq', 'value_laws_float_float', 'value_laws_int_int'],
        'thorough': ['float_.*', 'value_laws_.*'],
        'assumptions': ['the order laws that make MIN / MAX / PERCENTILE independent of the line order are re-checked here with the C16 harnesses (scalar variants)'],
    },
    'clause_prefixes': ['c15'],
    'technique': 'contract-based deductive verification (Verus): lemmas (induction, multiset permutation) over the step functions that the extracted GroupAggregator::update arms are proved to implement',
    'claim': 'Proof that an INT SUM that succeeds equals the mathematical sum of the values and that the mathematical sum is invariant under every permutation (multiset equality) and additive over concatenation; BOOL_AND over a concatenation is the conjunction of the parts; the MIN fold returns a lower bound of all values in any order (given the order laws of C16 as hypotheses), COUNT(DISTINCT) and PERCENTILE collect sets/multisets; the aggregator start value does not privilege the first value. Linked to the real code through the per-arm step contracts (C04). PERCENTILE: update_value leaves a sorted arrangement of the multiset of collected values and shows the element at a rank that depends on their number only (contract of the extracted arm), and two sorted arrangements of one multiset agree position by position up to the equality of the order (lemma_sorted_arrangements_agree, induction over the length) - so the value shown does not depend on the arrival order (lemma_percentile_depends_on_the_multiset_only). Float sums are excluded as in the property; the union of group sets (table assembly) is not covered.',
    'note': 'Trusted: as C04. Order-dependence through overflow of partial sums is handled as in the code: a run either reports an error or shows the exact sum.',
    'level': 'proof',
    'explanation': 'lemma_math_sum_permutation is a full permutation-invariance proof over multisets; the other aggregates are shown commutative/associative at the step level.',
    'trusted': COMMON_TRUST + ['value_cmp total-preorder laws enter the lemmas as hypotheses; for REAL and the other scalar variants they are re-checked by the Kani harnesses of C16 in this check'],
    'unproved': ['Vec<Value>::sort (sorted-permutation stand-in)', 'group-set union across inputs (table assembly)'],
}

CHECKS['C05'] = {
    'grid': {'sets': ['c05'], 'bound': 'a rotating seventeenth of (every sequence of up to 3 left rows over a 6-row pool x every sequence of up to 3 right rows over a 6-row pool): keys duplicated on either side, absent on one side, NULL, integers next to 2^53; TEXT and INT keys, ON written either way round, 10 statement shapes; missing joined file / join column (also with an empty joined file) (about 3950 cases)'},
    'verus_units': ['join', 'joinload', 'mapping', 'converter', 'parser', 'engine', 'extract'],
    'clause_prefixes': ['c05', 'row.'],
    'technique': 'contract-based deductive verification (Verus): JoinedTableData::add_row / get_joined_row / execute, execute_join, extend_option_result_row and create_joined_column_mapping extracted from /repo; the index is a specified stand-in, the per-partner calls are tracked by ghost state and an in-body assertion',
    'claim': 'Proof for all rows, indexes and join clauses that the partners of a queried row are exactly the rows of the joined file stored under a key EQUAL to its join value and not NULL, in joined-file order; that the statement is run once per partner in that order and every result row is kept in order; that a row without partner yields nothing for INNER (or where OUTER is not allowed) and exactly one run on an all-NULL partner for OUTER; that a missing join column is an error. Loading the joined file (JoinedTableData::execute) is proved in unit joinload to run every line once, in order, through the SELECT and to store each resulting row under its join value; a missing file / table / column is an error. create_joined_column_mapping (unit mapping) is proved to bind the queried row\'s names first, then every joined column under its plain name unless that name is taken and always under its table-qualified name, and to list for `*` the queried table\'s columns followed by the joined table\'s (a clashing one by its qualified name); lemmas: queried columns keep their values, joined columns are addressable by their qualified names and, when nothing clashes, by their plain names. transform_join (unit converter) assigns the two sides of ON a.x = b.y by table name, not by position: the side of the queried table gives the joiner column, the other side must name the joined table and gives the joined column,  anything else is an error; parse_join (unit parser) records every part of JOIN t::\'file\' ON a.x = b.y from the token at its place; ExecutionEngine::execute_joined_table (unit engine) loads the joined file exactly for statements that have a JOIN clause, or reports the error; the join branches of execute_select / execute_aggregate / execute_aggregate_update run an admitted row through execute_join with the statement\'s own JOIN clause and the loaded table, OUTER allowed for plain queries only, and `join.as_ref().unwrap()` cannot fail (join_consistent).',
    'note': 'Trusted: std HashMap<Value, Vec<Row>> as buckets of value-equal keys in insertion order (VRowIndex; relies on C16), TableDefinition::index_for as a stand-in inside unit join (its body is under contract in unit extract: the first column of that name; itertools find_position behind a stand-in), the nested HashMap behind HashMapColumnProvider (VScopes / VNameMap: scope, then name) and HashSet<String>; HashMapColumnProvider::new / create_table_scope / with_table_keys / get / keys / add_key and ColumnProvider::add_keys_for_table are under contract in unit mapping, in unit join create_joined_column_mapping is a constructor stand-in (its body is proved in unit mapping), FnMut callback: Verus cannot relate results of successive FnMut calls to one closure value, so "rows of the output = results of the calls" is carried by ghost state inside the body (loop invariant + assertion), not by the postcondition.',
    'level': 'proof',
    'explanation': 'partners(data, key) is the spec from the property text; get_joined_row is proved equal to it; execute_join is proved to call the statement for exactly those rows.',
    'trusted': COMMON_TRUST + ['std HashMap bucket semantics'],
    'unproved': ['the effect of the statement callback on the sub-engine inside a join (closures capturing &mut are replaced by a callback constructor whose effect is not modelled)'],
}

CHECKS['C17'] = {
    'grid': {'sets': ['c17'], 'bound': 'OutputPrinter::print driven with tables of 1..4 columns and 0..3 rows (several tables per printer, an empty one first) built from 33 values (64-bit ends, REAL edge values, TEXT with quotes / delimiters / control / non-ASCII characters, arrays up to 300 elements, NULLs), JSON parsed back and compared, CSV and text for delimiter-free values, interactive and single-result mode; 12 query/format combinations through FileExecutor (about 2500 cases)'},
    'verus_units': ['output'],
    'clause_prefixes': ['c17'],
    'technique': 'contract-based deductive verification (Verus) of OutputPrinter::with_printer / print and Value::json_value extracted from /repo; the text of a record (format!, join, serde_json::to_string) is an uninterpreted function of the row',
    'claim': 'Proof of the RECORD STRUCTURE part of the property only: for every result table and every history of earlier print calls, OutputPrinter::print hands the printer exactly one record per result row, in result order (a lone `input` column in text format prints just the line); in CSV format exactly one header line precedes the first record the printer ever prints and none later; a blank line closes a multi-row table unless single_result; Value::json_value maps a value to the JSON value of its type - INT and finite REAL as numbers without loss, non-finite REAL and NULL as null, TEXT as a string with the same characters, BOOLEAN, arrays element by element, timestamps and intervals as their text form. NOT decided: the characters of a record - JSON escaping and key order (serde_json), CSV fields and delimiters, `name: value` rendering, number formatting (format!, Display for Value) - these are uninterpreted functions here.',
    'note': 'Trusted: Printer::println appends one line (trait contract), the stand-ins for the record texts (vx_text_record / vx_json_record / vx_csv_header / vx_csv_record replace the iterator chains with format! / join / serde_json::to_string, with the index precondition row.columns.len() >= number of column names), serde_json::Number::from / from_f64 as documented, a String is determined by its text. Precondition (assumed about the engines): every row has a value for every output column.',
    'level': 'proof',
    'explanation': 'Loop invariant in forward style: lines printed so far ++ records_from(rows i.., header still owed) is constant; records_from is the specification written from the property text.',
    'trusted': COMMON_TRUST + ['the text of a record is an uninterpreted function of (format, column names, row)', 'serde_json::Number constructors as documented'],
    'unproved': ['record text: JSON escaping / key order, CSV fields, text rendering (format!, Display for Value, serde_json::to_string)', 'ConsolePrinter::println (stdout)'],
}

NOT_APPLICABLE = {
    'C18': 'Determinism / hash-seed independence is a 2-safety property over runs whose only threat is iteration over std HashMap; the iterating functions are outside Verus\' accepted subset and Kani must stub RandomState to a constant, which assumes the property away.',
    'C20': 'Layout/case/clause-order insensitivity is a relation between the parses of TWO texts. The contracts within reach are per call: tokenize is under contract for positions, the End token and operator fusion (unit tokenizer), but relating two runs needs a complete functional specification of the token sequence (keyword table behind lazy_static, string escapes, comments, IS NOT / NOT IN fusion) plus an induction over a stateful scanner and over the recursive-descent clause loop, whose functions (Parser::parse_*, Box/Vec-building tree code, format!) are outside the subset Verus accepts here; a specification that complete would restate the tokenizer and parser rather than the property. No contract within reach decides it.',
}


def _grid_bound(name):
    """the stated bound of a grid = the `// Grid:` paragraph of its header comment"""
    import os, re
    text = open(os.path.join(os.path.dirname(os.path.abspath(__file__)), 'grid', name + '.rs')).read()
    head = text.split('include!', 1)[0]
    lines = [l[2:].strip() for l in head.split('\n') if l.startswith('//')]
    joined = ' '.join(lines)
    m = re.search(r'Grid: (.*)$', joined)
    return (m.group(1) if m else joined)[:1400]


for _spec in CHECKS.values():
    if _spec.get('grid'):
        _spec['grid']['bound'] = '; '.join(_grid_bound(n) for n in _spec['grid']['sets'])
