"""Bounded stand-ins ("grids"): the real crate, built from a scratch copy of the tree under test, is EXECUTED through its
public API over a stated, finite grid of inputs, and each case is judged by an oracle written from the property statement
(/verif/grid/<name>.rs, an integration test that prints GRID-FAIL / GRID-DONE lines).

A grid is never counted as proof.  run_check.py uses it
  * in the quick tier as a SAMPLE (of every family of cases the first four, then every 8th) next to the proof;
  * when the contract proof of a property is UNDECIDED on the tree under test (the changed code left the subset Verus accepts,
    or an anchor of the extraction is gone): a failing case is then a concrete input that violates the property on the real
    code - reported as a VIOLATION with that input; no failing case -> the check reports what it is: bounded only;
  * when an obligation failed (to attach a concrete failing input to a verifier result that has none);
  * in the thorough tier (additional bounded evidence on the unchanged tree).
The scratch copy is byte-identical to the tree under test plus tests/verif_grid_<name>.rs and tests/common/verif_grid_common.rs.
"""
import json
import os
import re
import shutil
import subprocess
import time

import scratchcrate

HERE = os.path.dirname(os.path.abspath(__file__))


class Undecided(Exception):
    pass


def _scratch(repo, workdir, names):
    dst = os.path.join(workdir, 'grid_crate')
    unique = scratchcrate.make(repo, dst)
    os.makedirs(os.path.join(dst, 'tests', 'common'), exist_ok=True)
    shutil.copy(os.path.join(HERE, 'grid', 'common.rs'), os.path.join(dst, 'tests', 'common', 'verif_grid_common.rs'))
    shutil.copy(os.path.join(HERE, 'grid', 'qcommon.rs'), os.path.join(dst, 'tests', 'common', 'verif_grid_qcommon.rs'))
    for n in names:
        text = open(os.path.join(HERE, 'grid', n + '.rs')).read().replace('include!("verif_grid_', 'include!("common/verif_grid_')
        # (the command-line binary of the scratch copy is named after its - unique - package)
        text = text.replace('VERIF_SCRATCH_PACKAGE', unique)
        with open(os.path.join(dst, 'tests', 'verif_grid_%s.rs' % n), 'w') as f:
            f.write(text)
    return dst, unique


def _run_one(crate, name, only=None, timeout=1500, stride=1, unique='', full=False):
    exe, files, log = scratchcrate.build_test(crate, unique, ['--test', 'verif_grid_%s' % name], timeout=timeout)
    try:
        if not exe:
            return 'error: build of the grid failed\n' + log, [], None
        env = dict(os.environ)
        env['VERIF_GRID_ONLY'] = only or ''
        env['VERIF_GRID_STRIDE'] = str(stride)
        env['VERIF_GRID_FULL'] = '1' if full else '0'   # thorough tier: the families of cases that are sampled otherwise run in full
        p = subprocess.run([exe, '--nocapture', '--test-threads=1'], cwd=crate, env=env, stdout=subprocess.PIPE, stderr=subprocess.STDOUT, text=True, timeout=timeout)
        out = p.stdout
    finally:
        scratchcrate.cleanup_files(files)
    fails = []
    for m in re.finditer(r'^GRID-FAIL grid=(\S+) case=(\S+) :: (.*)$', out, re.M):
        fails.append({'grid': m.group(1), 'case': m.group(2), 'what': m.group(3)[:1500]})
    done = re.search(r'^GRID-DONE grid=(\S+) cases=(\d+) fails=(\d+)', out, re.M)
    return out, fails, done


def run(pid, gspec, repo, workdir, stride=1, full=False):
    names = gspec['sets']
    crate, unique = _scratch(repo, workdir, names)
    t0 = time.time()
    failures, per = [], {}
    try:
        for n in names:
            try:
                out, fails, done = _run_one(crate, n, stride=stride, unique=unique, full=full, timeout=7200 if full else 1500)
            except subprocess.TimeoutExpired:
                raise Undecided('grid %s: wall-clock cap exceeded' % n)
            if not done:
                err = ' | '.join(l for l in out.split('\n') if l.startswith('error'))[:600] + ' || ' + out[-1500:].replace('\n', ' | ')
                raise Undecided('grid %s did not run on this tree (the public API it drives changed, or the build failed): %s' % (n, err or out[-400:].replace('\n', ' | ')))
            cases = int(done.group(2))
            if cases == 0:
                raise Undecided('grid %s ran zero cases (vacuous)' % n)
            per[n] = {'cases': cases, 'fails': int(done.group(3)), 'stride': stride, 'sampled_families_in_full': bool(full)}
            for f in fails[:3]:
                failures.append({'unit': 'grid', 'fn': 'grid::' + n, 'clause': f['case'], 'obligation': 'grid::%s::%s' % (n, f['case']),
                                 'message': 'bounded stand-in: the property statement does not hold on the real code for this input: ' + f['what'],
                                 'safety': False, 'text': f['what'], 'rendered': f['what'],
                                 'failing_input': {'grid': n, 'case': f['case'], 'as_text': f['what']},
                                 'replay_result': {'confirmed': True, 'cmd': 'cargo test --test verif_grid_%s (VERIF_GRID_ONLY=%s) on a scratch copy of the tree' % (n, f['case'])}})
    finally:
        shutil.rmtree(crate, ignore_errors=True)
        scratchcrate.cleanup(unique)
    return {'unit': 'grid', 'backend': 'bounded-grid', 'failures': failures, 'per_grid': per, 'wall_s': round(time.time() - t0, 2),
            'bound': gspec.get('bound', '') + (' - THOROUGH: the families of cases that the quick tier samples (a rotating n-th of the longest sequences) ran in full' if full else '') + (' - SAMPLED in this run: of every family of cases the first four and then every %d-th' % stride if stride > 1 else ''),
            'cmd': 'cargo test --offline --test verif_grid_<name> -- --nocapture (scratch copy of the tree + grid/<name>.rs + grid/common.rs)'}


def replay(rep, repo):
    import tempfile
    fi = rep['failing_input']
    wd = tempfile.mkdtemp(prefix='sqlgrep_verif_gridreplay_')
    unique = None
    try:
        crate, unique = _scratch(repo, wd, [fi['grid']])
        out, fails, done = _run_one(crate, fi['grid'], only=fi['case'], unique=unique, full=True)
    finally:
        shutil.rmtree(wd, ignore_errors=True)
        if unique:
            scratchcrate.cleanup(unique)
    print('obligation: %s' % rep.get('obligation'))
    print('recorded: %s' % fi.get('as_text'))
    if not done:
        print('the grid did not build/run on this tree:\n' + out[-800:])
        return 2
    if fails:
        for f in fails:
            print('REPRODUCED on %s: case %s :: %s' % (repo, f['case'], f['what']))
        return 1
    print('case %s holds on %s (%s)' % (fi['case'], repo, done.group(0)))
    return 0
