"""Kani back end: runs harness modules from /verif/kani/ inside a scratch copy of the real crate.

The crate sources in the scratch copy are byte-identical to /repo's working tree; the only additions are
  src/verif_kani_harness_<set>.rs   (copied from /verif/kani/<set>.rs)
  `#[cfg(kani)] mod verif_kani_harness_<set>;` appended to src/lib.rs
  .cargo/config.toml                ([net] offline = true)
A failing harness is re-run with concrete playback; the concrete values are then replayed against the
real code WITHOUT Kani: the same harness text is compiled as a #[cfg(test)] module against a tiny `kani`
shim (any() reads the recorded bytes, assume() aborts the replay if violated) in a scratch copy of /repo
and run with `cargo test`.
"""
import json
import os
import re
import shutil
import subprocess
import time

import scratchcrate

HERE = os.path.dirname(os.path.abspath(__file__))


class Undecided(Exception):
    pass


def parse_docs(path):
    docs = {}
    for ln in open(path):
        m = re.match(r'//\s*@doc\s+([\w<>]+):\s*(.*)$', ln.strip())
        if m:
            docs[m.group(1)] = m.group(2)
    return docs


def harness_names(path):
    text = open(path).read()
    names = re.findall(r'#\[kani::proof\]\s*(?:#\[[^\]]*\]\s*)*fn\s+(\w+)', text)
    names += re.findall(r'pair_harness!\((\w+),', text)
    names += re.findall(r'triple_harness!\((\w+),', text)
    names = [n for n in names if not n.startswith('$')]
    return names


def doc_for(docs, name):
    if name in docs:
        return docs[name]
    for k, v in docs.items():
        if '<' in k:
            rx = '^' + re.sub(r'<\w+>', r'(\\w+)', k) + '$'
            if re.match(rx, name):
                return v + ' [' + name + ']'
    return ''


def make_scratch(repo, workdir, sets, name='crate'):
    dst = os.path.join(workdir, name)
    subprocess.run(['rsync', '-a', '--exclude', 'target', '--exclude', '.git', repo.rstrip('/') + '/', dst + '/'], check=True)
    os.makedirs(os.path.join(dst, '.cargo'), exist_ok=True)
    with open(os.path.join(dst, '.cargo', 'config.toml'), 'w') as f:
        f.write('[net]\noffline = true\n')
    return dst


def run(pid, kspec, repo, workdir, tier, seed):
    sets = kspec['sets']
    crate = make_scratch(repo, workdir, sets)
    lib = os.path.join(crate, 'src', 'lib.rs')
    all_h = []
    docs = {}
    with open(lib, 'a') as f:
        for s in sets:
            src = os.path.join(HERE, 'kani', s + '.rs')
            shutil.copy(src, os.path.join(crate, 'src', 'verif_kani_harness_%s.rs' % s))
            f.write('\n#[cfg(kani)]\nmod verif_kani_harness_%s;\n' % s)
            docs.update(parse_docs(src))
            for n in harness_names(src):
                all_h.append((s, n))
    want = kspec.get(tier) or kspec.get('quick')
    sel = []
    for (s, n) in all_h:
        if any(re.fullmatch(p, n) for p in want):
            sel.append((s, n))
    if not sel:
        raise Undecided('kani: no harness selected (vacuous)')
    bounded = kspec.get('bounded', {})
    env = dict(os.environ)
    env['CARGO_NET_OFFLINE'] = 'true'
    env['CARGO_TARGET_DIR'] = os.path.join(workdir, 'kani_target')
    cmd = ['cargo', 'kani', '--output-format', 'terse', '-j', '8'] + kspec.get('flags', [])
    for (_s, n) in sel:
        cmd += ['--harness', n]
    t0 = time.time()
    try:
        p = subprocess.run(cmd, cwd=crate, env=env, stdout=subprocess.PIPE, stderr=subprocess.STDOUT, text=True,
                           timeout=kspec.get('timeout', 3000))
    except subprocess.TimeoutExpired:
        raise Undecided('kani: wall-clock cap exceeded')
    wall = time.time() - t0
    out = p.stdout
    res = {}
    # output is either sequential or (with -j) interleaved per "Thread N:"
    cur = {}
    active = None
    blocks = {}
    for ln in out.split('\n'):
        m = re.match(r'(?:Thread (\d+): )?Checking harness (\S+?)\.\.\.', ln)
        if m:
            t = m.group(1)
            name = m.group(2).split('::')[-1]
            cur[t] = name
            blocks[name] = ''
            active = t
            continue
        m = re.match(r'Thread (\d+):\s*(.*)$', ln)
        if m:
            active = m.group(1)
            ln = m.group(2)
        if active in cur:
            blocks[cur[active]] += ln + '\n'
    for name, b in blocks.items():
        m = re.search(r'VERIFICATION:- (\w+)', b)
        status = m.group(1) if m else 'UNKNOWN'
        mt = re.search(r'Verification Time: ([\d.]+)s', b)
        mc = re.search(r'\*\* (\d+) of (\d+) failed', b)
        mcov = re.search(r'\*\* (\d+) of (\d+) cover properties satisfied', b)
        failed = re.findall(r'Failed Checks: (.*)', b)
        res[name] = {'status': 'SUCCESS' if status == 'SUCCESSFUL' else status, 'time_s': float(mt.group(1)) if mt else None,
                     'checks': int(mc.group(2)) if mc else None, 'failed_checks': failed,
                     'covers': [int(mcov.group(1)), int(mcov.group(2))] if mcov else None, 'raw': b[-1500:]}
    if len(res) < len(sel):
        # summary fallback
        missing = [n for (_s, n) in sel if n not in res]
        raise Undecided('kani: no result for %s (build failure or ICE): %s' % (missing[:5], out[-1200:].replace('\n', ' | ')))
    harnesses, failures = [], []
    for (s, n) in sel:
        r = res[n]
        h = {'name': n, 'set': s, 'status': r['status'], 'time_s': r['time_s'], 'checks': r['checks'],
             'doc': doc_for(docs, n), 'bounded': bounded.get(n), 'src': 'kani/%s.rs' % s,
             'target': kspec.get('targets', {}).get(n, '')}
        if r['covers'] and r['covers'][0] < r['covers'][1]:
            raise Undecided('kani: cover unsatisfied in %s (vacuous assumption)' % n)
        harnesses.append(h)
        if r['status'] == 'FAILED':
            failures.append({'unit': 'kani', 'fn': n, 'clause': n, 'message': '; '.join(r['failed_checks']) or 'failed',
                             'obligation': 'kani::%s::%s' % (s, n), 'safety': False, 'text': h['doc'],
                             'rendered': r['raw'], 'set': s})
        elif r['status'] != 'SUCCESS':
            raise Undecided('kani: harness %s ended with %s' % (n, r['status']))
    # concrete playback + replay for failures
    if failures:
        cmd2 = ['cargo', 'kani', '--output-format', 'terse', '-Z', 'concrete-playback', '--concrete-playback=print'] + kspec.get('flags', [])
        for f in failures:
            cmd2 += ['--harness', f['fn']]
        try:
            p2 = subprocess.run(cmd2, cwd=crate, env=env, stdout=subprocess.PIPE, stderr=subprocess.STDOUT, text=True, timeout=1500)
            for f in failures:
                m = re.search(r'Concrete playback unit test for `[\w:]*%s`:\s*```(.*?)```' % re.escape(f['fn']), p2.stdout, re.S)
                if m:
                    vals = [[int(x) for x in v.split(',') if x.strip()] for v in re.findall(r'vec!\[([\d,\s]*)\]\s*,', m.group(1))]
                    comments = re.findall(r'//\s*(.*)\n\s*vec!\[', m.group(1))
                    f['failing_input'] = {'harness': f['fn'], 'set': f['set'], 'concrete_vals': vals, 'as_text': comments}
        except subprocess.TimeoutExpired:
            pass
        for f in failures:
            if f.get('failing_input'):
                rr = replay_vals(f['failing_input'], repo, workdir)
                f['replay_result'] = rr
                if not rr.get('confirmed'):
                    # the counterexample does not reproduce on the real code: do not report it as an input
                    f['failing_input'] = None
    # hardware grid (bounded stand-in): CBMC's float model canonicalises NaN results, the hardware does not
    grid = None
    if kspec.get('hw_grid', True):
        ok_names = [h['name'] for h in harnesses if h['status'] == 'SUCCESS']
        if ok_names:
            grid = hardware_grid(sets, ok_names, repo, workdir)
            for g in grid['failures']:
                h = [x for x in harnesses if x['name'] == g['harness']][0]
                fi = {'harness': g['harness'], 'set': h['set'], 'concrete_vals': g['vals'], 'as_text': g['as_text']}
                f = {'unit': 'kani', 'fn': g['harness'], 'clause': g['harness'] + '@hardware-grid',
                     'message': 'assertion fails on the compiled code for a value of the edge grid: ' + g['panic'],
                     'obligation': 'kani::%s::%s@hardware-grid' % (h['set'], g['harness']), 'safety': False, 'text': h['doc'],
                     'rendered': g['panic'], 'set': h['set'], 'failing_input': fi}
                rr = replay_vals(fi, repo, workdir)
                f['replay_result'] = rr
                if rr.get('confirmed'):
                    failures.append(f)
                else:
                    raise Undecided('hardware grid: failure of %s did not replay (%s)' % (g['harness'], rr.get('why')))
    return {'unit': 'kani', 'backend': 'kani+cbmc', 'harnesses': harnesses, 'failures': failures, 'hw_grid': (
            {k: grid[k] for k in ('runs', 'per_harness', 'values_per_draw', 'wall_s', 'cmd')} if grid else None),
            'functions': [], 'named_clauses': [], 'assumptions': kspec.get('assumptions', []), 'wall_s': round(wall, 2),
            'smt_ms': int(1000 * sum(h['time_s'] or 0 for h in harnesses)),
            'cmd': 'CARGO_NET_OFFLINE=true cargo kani --output-format terse -j 8 %s --harness <each> (scratch copy of /repo + kani/%s.rs)' % (' '.join(kspec.get('flags', [])), ','.join(sets))}


SHIM = r'''
#[cfg(test)]
#[allow(dead_code, unused_macros, unused_imports)]
pub mod kani {
    use std::cell::RefCell;
    thread_local! { pub static VALS: RefCell<Vec<Vec<u8>>> = RefCell::new(Vec::new()); }
    pub fn set(v: Vec<Vec<u8>>) { VALS.with(|q| { let mut v = v; v.reverse(); *q.borrow_mut() = v; }); }
    fn take() -> Vec<u8> { VALS.with(|q| q.borrow_mut().pop().expect("replay: ran out of recorded values")) }
    pub trait Arbitrary { fn from_bytes(b: Vec<u8>) -> Self; }
    macro_rules! num { ($($t:ty),*) => { $( impl Arbitrary for $t { fn from_bytes(b: Vec<u8>) -> Self {
        let mut a = [0u8; std::mem::size_of::<$t>()]; a.copy_from_slice(&b[..std::mem::size_of::<$t>()]); <$t>::from_le_bytes(a) } } )* } }
    num!(u8, u16, u32, u64, usize, i8, i16, i32, i64, isize, f64, f32);
    impl Arbitrary for bool { fn from_bytes(b: Vec<u8>) -> Self { b[0] & 1 == 1 } }
    pub fn any<T: Arbitrary>() -> T { T::from_bytes(take()) }
    pub fn assume(c: bool) { if !c { panic!("REPLAY-ASSUMPTION-VIOLATED"); } }
    macro_rules! cover { ($($t:tt)*) => {}; }
    pub(crate) use cover;
}
'''


GRID_SHIM = r'''
#[cfg(test)]
#[allow(dead_code, unused_macros, unused_imports)]
pub mod kani {
    use std::cell::RefCell;
    // depth-first enumeration of every combination of edge values; the number of draws is discovered while running
    thread_local! { pub static COMBO: RefCell<Vec<(usize, usize)>> = RefCell::new(Vec::new());
                    pub static POS: RefCell<usize> = RefCell::new(0);
                    pub static LOG: RefCell<Vec<(Vec<u8>, String)>> = RefCell::new(Vec::new()); }
    pub const F64S: [u64; 20] = [0, 0x8000000000000000, 0x3ff0000000000000, 0xbff0000000000000, 0x3ff8000000000000,
        0x7ff0000000000000, 0xfff0000000000000, 0x7ff8000000000000, 0x7ff8000000000001, 0xfff8000000000000, 0x7ff0000000000001,
        0xfff4000000000000, 0x0010000000000000, 0x0000000000000001, 0x7fefffffffffffff, 0x4340000000000000, 0x4340000000000001,
        0x43e0000000000000, 0xc3e0000000000000, 0x8000000000000001];
    pub const I64S: [i64; 10] = [0, 1, -1, 2, i64::MAX, i64::MIN, 9007199254740992, 9007199254740993, -9007199254740993, i64::MAX - 1];
    fn pick(n: usize) -> usize {
        let p = POS.with(|p| { let v = *p.borrow(); *p.borrow_mut() = v + 1; v });
        COMBO.with(|c| { let mut c = c.borrow_mut(); if p >= c.len() { c.push((0, n)); } c[p].0 })
    }
    pub trait Arbitrary { fn grid() -> Self; }
    fn log(b: Vec<u8>, t: String) { LOG.with(|l| l.borrow_mut().push((b, t))); }
    impl Arbitrary for f64 { fn grid() -> Self { let v = f64::from_bits(F64S[pick(F64S.len())]); log(v.to_le_bytes().to_vec(), format!("{:?} (bits {:#018x})", v, v.to_bits())); v } }
    impl Arbitrary for f32 { fn grid() -> Self { let v = f64::from_bits(F64S[pick(F64S.len())]) as f32; log(v.to_le_bytes().to_vec(), format!("{:?}", v)); v } }
    impl Arbitrary for bool { fn grid() -> Self { let v = pick(2) == 1; log(vec![v as u8], format!("{}", v)); v } }
    macro_rules! int { ($($t:ty),*) => { $( impl Arbitrary for $t { fn grid() -> Self { let v = I64S[pick(I64S.len())] as $t; log(v.to_le_bytes().to_vec(), format!("{}", v)); v } } )* } }
    int!(u8, u16, u32, u64, usize, i8, i16, i32, i64, isize);
    pub fn any<T: Arbitrary>() -> T { T::grid() }
    pub struct AssumeViolated;
    pub fn assume(c: bool) { if !c { std::panic::resume_unwind(Box::new(AssumeViolated)); } }
    macro_rules! cover { ($($t:tt)*) => {}; }
    pub(crate) use cover;
    /// runs `h` on every combination; returns (runs, first failure as (values, texts, panic message))
    pub fn enumerate(h: fn()) -> (u64, Option<(Vec<Vec<u8>>, Vec<String>, String)>) {
        COMBO.with(|c| c.borrow_mut().clear());
        let mut runs = 0u64;
        loop {
            POS.with(|p| *p.borrow_mut() = 0);
            LOG.with(|l| l.borrow_mut().clear());
            let r = std::panic::catch_unwind(h);
            runs += 1;
            if let Err(e) = r {
                if !e.is::<AssumeViolated>() {
                    let msg = if let Some(s) = e.downcast_ref::<String>() { s.clone() } else if let Some(s) = e.downcast_ref::<&str>() { s.to_string() } else { "panic".to_string() };
                    let (vals, texts) = LOG.with(|l| (l.borrow().iter().map(|x| x.0.clone()).collect(), l.borrow().iter().map(|x| x.1.clone()).collect()));
                    return (runs, Some((vals, texts, msg)));
                }
            }
            // next combination: drop the draws that were not reached, then increment like an odometer
            let used = POS.with(|p| *p.borrow());
            let done = COMBO.with(|c| {
                let mut c = c.borrow_mut();
                c.truncate(used);
                loop {
                    match c.last_mut() {
                        None => return true,
                        Some(last) => { last.0 += 1; if last.0 < last.1 { return false; } }
                    }
                    c.pop();
                }
            });
            if done { return (runs, None); }
        }
    }
}
'''


def hardware_grid(sets, names, repo, workdir):
    """Bounded stand-in next to the Kani proof: every harness that Kani discharged is also EXECUTED on the real build
    for every combination of a fixed grid of edge values (20 f64 bit patterns incl. NaN payloads / signed zeros /
    subnormals / 2^53 / 2^63, 10 integers, both booleans).  CBMC's floating-point model returns one canonical NaN from
    arithmetic; the hardware keeps payloads, so a law that breaks only there is invisible to CBMC."""
    crate = os.path.join(workdir, 'hwgrid_crate')
    unique = scratchcrate.make(repo, crate)
    body = ''
    for s in sets:
        src = open(os.path.join(HERE, 'kani', s + '.rs')).read()
        src = src.replace('#[kani::proof]', '#[allow(dead_code)]')
        src = re.sub(r'#\[kani::unwind\(\d+\)\]', '', src)
        src = re.sub(r'#\[kani::stub\([^\]]*\)\]', '', src)
        src = src.replace('kani::', 'crate::kani::')
        body += src
    test = '\n#[test]\nfn verif_grid() {\n    std::panic::set_hook(Box::new(|_| {}));\n'
    for n in names:
        test += ('    { let (runs, f) = crate::kani::enumerate(%s); match f { None => println!("GRID %s runs={} ok", runs),\n'
                 '        Some((v, t, m)) => println!("GRID %s runs={} FAIL vals={:?} texts={:?} msg={:?}", runs, v, t, m) } }\n') % (n, n, n)
    test += '}\n'
    with open(os.path.join(crate, 'src', 'verif_grid.rs'), 'w') as f:
        f.write(body + test)
    with open(os.path.join(crate, 'src', 'lib.rs'), 'a') as f:
        f.write(GRID_SHIM + '\n#[cfg(test)]\nmod verif_grid;\n')
    env = dict(os.environ)
    env['CARGO_NET_OFFLINE'] = 'true'
    env['CARGO_TARGET_DIR'] = scratchcrate.target_dir()
    t0 = time.time()
    exe, files, log = scratchcrate.build_test(crate, unique, ['--lib'])
    try:
        if exe:
            p = subprocess.run([exe, 'verif_grid::verif_grid', '--exact', '--nocapture'], cwd=crate, env=env, stdout=subprocess.PIPE, stderr=subprocess.STDOUT, text=True, timeout=1500)
            out = p.stdout
        else:
            out = 'build failed: ' + log
    finally:
        scratchcrate.cleanup_files(files)
    shutil.rmtree(crate, ignore_errors=True)
    scratchcrate.cleanup(unique)
    per, fails, total = {}, [], 0
    for ln in out.split('\n'):
        m = re.match(r'GRID (\w+) runs=(\d+) (ok|FAIL)(.*)$', ln.strip())
        if not m:
            continue
        per[m.group(1)] = int(m.group(2))
        total += int(m.group(2))
        if m.group(3) == 'FAIL':
            mm = re.search(r'vals=(\[.*?\]) texts=(\[.*?\]) msg=(".*")$', m.group(4))
            vals = json.loads(mm.group(1))
            texts = re.findall(r'"((?:[^"\\]|\\.)*)"', mm.group(2))
            fails.append({'harness': m.group(1), 'vals': vals, 'as_text': texts, 'panic': mm.group(3)})
    missing = [n for n in names if n not in per]
    if missing:
        raise Undecided('hardware grid: no result for %s: %s' % (missing[:4], out[-800:].replace('\n', ' | ')))
    if any(v == 0 for v in per.values()):
        raise Undecided('hardware grid: a harness ran zero combinations (vacuous)')
    return {'runs': total, 'per_harness': per, 'failures': fails, 'values_per_draw': {'f64': 20, 'integers': 10, 'bool': 2},
            'wall_s': round(time.time() - t0, 2),
            'cmd': 'cargo test --lib verif_grid (scratch copy of /repo + kani/<set>.rs + enumeration shim)'}


def replay_vals(fi, repo, workdir):
    """replays a Kani counterexample on a scratch copy of the real crate with `cargo test` (no Kani involved)"""
    crate = os.path.join(workdir, 'replay_crate')
    unique = scratchcrate.make(repo, crate)
    src = open(os.path.join(HERE, 'kani', fi['set'] + '.rs')).read()
    src = src.replace('#[kani::proof]', '#[allow(dead_code)]')
    src = re.sub(r'#\[kani::unwind\(\d+\)\]', '', src)
    src = re.sub(r'#\[kani::stub\([^\]]*\)\]', '', src)
    src = src.replace('use crate::', 'use crate::').replace('kani::', 'crate::kani::')
    test = '''
#[test]
fn verif_replay() {
    crate::kani::set(vec![%s]);
    %s();
}
''' % (', '.join('vec![%s]' % ', '.join(str(b) for b in v) for v in fi['concrete_vals']), fi['harness'])
    with open(os.path.join(crate, 'src', 'verif_replay.rs'), 'w') as f:
        f.write(src + test)
    with open(os.path.join(crate, 'src', 'lib.rs'), 'a') as f:
        f.write(SHIM + '\n#[cfg(test)]\nmod verif_replay;\n')
    env = dict(os.environ)
    env['CARGO_NET_OFFLINE'] = 'true'
    env['CARGO_TARGET_DIR'] = scratchcrate.target_dir()
    exe, files, log = scratchcrate.build_test(crate, unique, ['--lib'])
    try:
        if exe:
            p = subprocess.run([exe, 'verif_replay::verif_replay', '--exact', '--nocapture'], cwd=crate, env=env, stdout=subprocess.PIPE, stderr=subprocess.STDOUT, text=True, timeout=1500)
            out = p.stdout
        else:
            out = 'build failed: ' + log
    finally:
        scratchcrate.cleanup_files(files)
    shutil.rmtree(crate, ignore_errors=True)
    scratchcrate.cleanup(unique)
    if 'REPLAY-ASSUMPTION-VIOLATED' in out or 'ran out of recorded values' in out:
        return {'confirmed': False, 'why': 'recorded values do not drive the harness on the real build', 'tail': out[-600:]}
    if re.search(r'test result: FAILED', out) and 'panicked at' in out:
        m = re.search(r'panicked at ([^\n]*\n[^\n]*)', out)
        return {'confirmed': True, 'panic': m.group(1) if m else '', 'cmd': 'cargo test --lib verif_replay (scratch copy of /repo + harness + kani shim)'}
    if re.search(r'test result: ok', out):
        return {'confirmed': False, 'why': 'assertion holds on the real build for these values', 'tail': out[-400:]}
    return {'confirmed': False, 'why': 'replay build failed', 'tail': out[-800:]}


def replay(path, repo):
    import tempfile
    rep = json.load(open(path))
    fi = rep.get('failing_input')
    print('obligation: %s' % rep.get('obligation'))
    print('message: %s' % rep.get('message'))
    if not fi:
        print(rep.get('verifier_output', ''))
        print('no-failing-input-found: the verifier gave no concrete input; the failed obligation and its output are above')
        return 1
    wd = tempfile.mkdtemp(prefix='sqlgrep_verif_replay_')
    try:
        rr = replay_vals(fi, repo, wd)
    finally:
        shutil.rmtree(wd, ignore_errors=True)
    print(json.dumps(rr, indent=1))
    return 1 if rr.get('confirmed') else 0
