#!/bin/sh
# usage: seed_eval.sh <Cxx> <dir with patch.diff> : applies the change to /repo, runs the property's check (and C09), reverts
P=$1; D=$2
cd /repo || exit 9
git diff --quiet || { echo "/repo is dirty"; exit 9; }
P2="$D/patch.diff"; [ -f "$D/patch_ported.diff" ] && P2="$D/patch_ported.diff"; git apply "$P2" || { echo "patch does not apply"; exit 9; }
cd /verif
./run_check.py $P > /tmp/seed_eval_$P.log 2>&1; rc=$?
grep -E "^(VIOLATION|UNDECIDED|OK|KNOWN)" /tmp/seed_eval_$P.log | cut -c1-260
echo "rc=$rc"
git -C /repo checkout -- .
exit 0
