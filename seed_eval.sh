#!/bin/sh
# usage: seed_eval.sh <Cxx> <dir with patch.diff> : applies the change to a scratch copy of /repo's working tree (never to
# /repo), runs the property's check against the copy (evidence and replays go to the scratch directory), removes the copy
P=$1; D=$2
W=$(mktemp -d -t sqlgrep_verif_seed_eval_XXXXXX)
rsync -a --exclude target --exclude .git /repo/ "$W/repo/"
P2="$D/patch.diff"; [ -f "$D/patch_ported.diff" ] && P2="$D/patch_ported.diff"
( cd "$W/repo" && git apply "$P2" ) || { echo "patch does not apply"; rm -rf "$W"; exit 9; }
cd /verif
VERIF_CARGO_TARGET=/repo/target ./run_check.py "$P" --repo "$W/repo" --out "$W" > "$W/log" 2>&1; rc=$?
grep -E "^(VIOLATION|UNDECIDED|OK|KNOWN)" "$W/log" | cut -c1-260
echo "rc=$rc"
rm -rf "$W"
exit 0
